//go:build verif

package sunlight

// (c) leaf-index extension: MarshalExtensions/ParseExtensions round trip for
// 40-bit values, refusal outside the range, ParseExtensions on mutated and
// grammar-generated CTExtensions values; the same values embedded as the
// CtExtensions vector of a TileLeaf.

import (
	"bytes"
	"fmt"
	"math"
	"sort"

	"filippo.io/sunlight/internal/verifmc"
)

func c10Marshal(v int64) (out []byte, err error, panicked any) {
	defer func() {
		if p := recover(); p != nil {
			panicked = p
		}
	}()
	out, err = MarshalExtensions(Extensions{LeafIndex: v})
	return
}

func c10Parse(ext []byte) (e Extensions, err error, panicked any) {
	defer func() {
		if p := recover(); p != nil {
			panicked = p
		}
	}()
	e, err = ParseExtensions(ext)
	return
}

// c10JudgeIndex: one leaf index value through MarshalExtensions,
// ParseExtensions, AppendTileLeaf/MerkleTreeLeaf and the readers.
func c10JudgeIndex(v int64) (outcome string, problems []string) {
	bad := func(f string, a ...any) { problems = append(problems, fmt.Sprintf(f, a...)) }
	inRange := v >= 0 && v>>40 == 0
	out, err, p := c10Marshal(v)
	e := &LogEntry{Certificate: []byte{0x30}, LeafIndex: v, Timestamp: 1}
	if !inRange {
		if p != nil {
			bad("MarshalExtensions(%d) panicked: %v", v, p)
		} else if err == nil {
			bad("MarshalExtensions accepted leaf index %d outside 0..2^40-1 (encoded as %x)", v, out)
		}
		// an entry that cannot be represented must not be encoded silently
		if enc, p := c10Append(nil, e); p == nil {
			bad("AppendTileLeaf encoded leaf index %d outside 0..2^40-1 as %x", v, enc)
		}
		if mtl, p := c10MTL(e); p == nil {
			bad("MerkleTreeLeaf encoded leaf index %d outside 0..2^40-1 as %x", v, mtl)
		}
		if len(problems) > 0 {
			return "violation", problems
		}
		return "out of range refused", nil
	}
	want := verifmc.C10IndexExt(v)
	switch {
	case p != nil:
		bad("MarshalExtensions(%d) panicked: %v", v, p)
	case err != nil:
		bad("MarshalExtensions refused leaf index %d: %v", v, err)
	case !bytes.Equal(out, want):
		bad("MarshalExtensions(%d) = %x, want %x", v, out, want)
	}
	got, err, p := c10Parse(want)
	switch {
	case p != nil:
		bad("ParseExtensions(%x) panicked: %v", want, p)
	case err != nil:
		bad("ParseExtensions refused the canonical extension %x: %v", want, err)
	case got.LeafIndex != v:
		bad("ParseExtensions(%x) = %d, want %d", want, got.LeafIndex, v)
	}
	// the same index inside a leaf
	ref := &verifmc.C10Entry{Timestamp: 1, Index: v, Cert: []byte{0x30}}
	enc, p := c10Append(nil, e)
	if p != nil {
		bad("AppendTileLeaf panicked for leaf index %d: %v", v, p)
	} else {
		if !bytes.Equal(enc, ref.TileLeaf()) {
			bad("AppendTileLeaf with leaf index %d = %x, want %x", v, enc, ref.TileLeaf())
		}
		for _, maybe := range []bool{false, true} {
			d := c10Read(maybe, enc)
			switch {
			case d.panicked != nil:
				bad("%s panicked: %v", c10ReadName[maybe], d.panicked)
			case d.err != nil:
				bad("%s refused the leaf with index %d: %v", c10ReadName[maybe], v, d.err)
			case d.e == nil || d.e.LeafIndex != v || d.e.RFC6962ArchivalLeaf || len(d.rest) != 0:
				bad("%s did not return leaf index %d: %+v", c10ReadName[maybe], v, d.e)
			}
		}
	}
	if mtl, p := c10MTL(e); p != nil {
		bad("MerkleTreeLeaf panicked for leaf index %d: %v", v, p)
	} else if !bytes.Equal(mtl, ref.MerkleTreeLeaf()) {
		bad("MerkleTreeLeaf with leaf index %d = %x, want %x", v, mtl, ref.MerkleTreeLeaf())
	}
	if len(problems) > 0 {
		return "violation", problems
	}
	return "in range round trip", nil
}

// c10WellFormedUnknown: b is a (possibly empty) list of well-formed extensions
// none of which is a leaf_index extension.
func c10WellFormedUnknown(b []byte) bool {
	for len(b) > 0 {
		if len(b) < 3 || b[0] == 0 {
			return false
		}
		n := int(b[1])<<8 | int(b[2])
		if len(b)-3 < n {
			return false
		}
		b = b[3+n:]
	}
	return true
}

// c10JudgeExt: ParseExtensions on an arbitrary CTExtensions value. Judged:
// no panic; success => the index is the one carried by the first leaf_index
// extension and that extension is exactly 5 bytes long (reached through
// well-formed extensions only); the canonical value, and (documented:
// "ignoring unknown extensions") a leaf_index extension surrounded by
// well-formed unknown extensions only, must be accepted. What follows the
// first leaf_index extension is otherwise not judged.
func c10JudgeExt(ext []byte) (outcome string, problems []string) {
	bad := func(f string, a ...any) { problems = append(problems, fmt.Sprintf(f, a...)) }
	got, err, p := c10Parse(ext)
	idx, ok, unknown, end := verifmc.C10FirstLeafIndex(ext)
	switch {
	case p != nil:
		bad("ParseExtensions panicked: %v", p)
		outcome = "violation"
	case err == nil && !ok:
		bad("ParseExtensions accepted %x (index %d) although its first leaf_index extension is missing, malformed or not exactly 5 bytes", c10Clip(ext), got.LeafIndex)
		outcome = "violation"
	case err == nil && got.LeafIndex != idx:
		bad("ParseExtensions(%x) = %d, the first leaf_index extension carries %d", c10Clip(ext), got.LeafIndex, idx)
		outcome = "violation"
	case err == nil:
		outcome = "accepted"
		if unknown > 0 {
			outcome += " after unknown extensions"
		}
		if end < len(ext) {
			outcome += " with bytes following"
		}
	case ok && c10WellFormedUnknown(ext[end:]):
		bad("ParseExtensions refused %x whose only leaf_index extension is well-formed (index %d): %v", c10Clip(ext), idx, err)
		outcome = "violation"
	case ok:
		outcome = "refused (not judged: junk or a second leaf_index after the first)"
	default:
		outcome = "refused"
	}
	return outcome, problems
}

func c10IndexValues() []int64 {
	seen := map[int64]bool{}
	var out []int64
	add := func(v int64) {
		if !seen[v] {
			seen[v] = true
			out = append(out, v)
		}
	}
	for v := int64(0); v <= 65536; v++ {
		add(v)
	}
	// all values with at most two set bits, over the whole int64 (bit 63 = negative)
	for i := 0; i < 64; i++ {
		add(int64(uint64(1) << i))
		for j := i + 1; j < 64; j++ {
			add(int64(uint64(1)<<i | uint64(1)<<j))
		}
	}
	// each byte lane 0..255, also the three lanes above the 40 bits
	for lane := 0; lane < 8; lane++ {
		for b := int64(0); b < 256; b++ {
			add(int64(uint64(b) << (8 * lane)))
		}
	}
	for _, v := range []int64{1<<40 - 2, 1<<40 - 1, 1 << 40, 1<<40 + 1, 1<<41 - 1, 1<<32 - 1, 1 << 32, 1<<32 + 1, 1<<39 - 1, 1 << 39,
		0x0102030405, 0xfffefdfcfb, -1, -2, -(1 << 40), -(1<<40 - 1), math.MinInt64, math.MinInt64 + 1, math.MaxInt64, math.MaxInt64 - 1,
		1<<48 - 1, 1<<56 - 1} {
		add(v)
	}
	sort.Slice(out, func(i, j int) bool { return uint64(out[i]) < uint64(out[j]) })
	return out
}

// c10ExtElems: building blocks of the CTExtensions grammar: one extension with
// type t, declared data length d and actual data length a (d != a makes the
// extension swallow or lack a byte).
func c10ExtElems() (elems [][]byte, names []string) {
	for _, t := range []byte{0, 1, 255} {
		for _, da := range [][2]int{{0, 0}, {4, 4}, {5, 5}, {6, 6}, {5, 4}, {5, 6}, {1, 1}} {
			e := []byte{t, byte(da[0] >> 8), byte(da[0])}
			for k := 0; k < da[1]; k++ {
				e = append(e, byte(0x11*(k+1)))
			}
			elems = append(elems, e)
			names = append(names, fmt.Sprintf("t%d.d%d.a%d", t, da[0], da[1]))
		}
	}
	return
}

// c10Embed puts ext as the raw CtExtensions vector into a small x509 and a
// small precert TileLeaf followed by two zero bytes.
func c10Embed(ext []byte) [2][]byte {
	x := &verifmc.C10Entry{Timestamp: 3, Cert: []byte{0x30}, Fingerprints: [][32]byte{c10FP(1)}}
	p := &verifmc.C10Entry{Timestamp: 3, IsPrecert: true, IssuerKeyHash: c10IKH(), Cert: []byte{0x30}, PreCert: []byte{0x31, 0x32}}
	return [2][]byte{
		append(verifmc.C10Concat(x.TileLeafPiecesExt(ext)), 0, 0),
		append(verifmc.C10Concat(p.TileLeafPiecesExt(ext)), 0, 0),
	}
}

func (r *c10Run) judgeExt(ext []byte, embed bool, origin func() string) {
	outcome, problems := c10JudgeExt(ext)
	r.tally("ParseExtensions " + outcome)
	if len(problems) > 0 {
		r.badExt(ext, origin(), problems)
	}
	if !embed {
		return
	}
	for _, tile := range c10Embed(ext) {
		code, problems := c10JudgeTile(tile)
		r.tally("as CtExtensions of a leaf: " + c10CodeName[code])
		if len(problems) > 0 {
			r.badTile(tile, "leaf with CtExtensions "+origin(), problems)
		}
	}
}

func c10Ext(r *c10Run) {
	// values through Marshal/Parse
	vals := c10IndexValues()
	const chunk = 1024
	for lo := 0; lo < len(vals); lo += chunk {
		hi := min(lo+chunk, len(vals))
		if !r.begin(fmt.Sprintf("c-index/%#x..%#x", uint64(vals[lo]), uint64(vals[hi-1]))) {
			continue
		}
		for _, v := range vals[lo:hi] {
			outcome, problems := c10JudgeIndex(v)
			r.tally(outcome)
			if len(problems) > 0 {
				r.violation("ext-marshal", c10IndexInput{v}, problems)
			}
		}
		r.end()
	}

	// every CTExtensions byte string of length <= 2 (also embedded in leaves), and of length 3
	if r.begin("c-short/empty") {
		r.judgeExt(nil, true, func() string { return "empty" })
		r.end()
	}
	for a := 0; a < 256; a++ {
		if r.begin(fmt.Sprintf("c-short/%02x", a)) {
			r.judgeExt([]byte{byte(a)}, true, func() string { return "1-byte string" })
			for b := 0; b < 256; b++ {
				r.judgeExt([]byte{byte(a), byte(b)}, true, func() string { return "2-byte string" })
			}
			r.end()
		}
	}
	for a := 0; a < 256; a++ {
		if r.begin(fmt.Sprintf("c-len3/%02x", a)) {
			buf := []byte{byte(a), 0, 0}
			for b := 0; b < 256; b++ {
				for c := 0; c < 256; c++ {
					buf[1], buf[2] = byte(b), byte(c)
					// embedding every 3-byte string in a leaf is left to the thorough tier
					r.judgeExt(buf, r.thorough, func() string { return "3-byte string" })
				}
			}
			r.end()
		}
	}

	// distance-1 (all) and distance-2 (all pairs) mutations of canonical extension values
	idxs := []int64{0x0102030405, 0, 1<<40 - 1}
	for bi, idx := range idxs {
		base := verifmc.C10IndexExt(idx)
		n := len(base)
		if r.begin(fmt.Sprintf("c-dist1/idx%x/trunc", idx)) {
			r.judgeExt(base, true, func() string { return "canonical" })
			for k := 0; k < n; k++ {
				r.judgeExt(base[:k:k], true, func() string { return fmt.Sprintf("canonical %x truncated to %d", base, k) })
			}
			r.end()
		}
		for p := 0; p <= n; p++ {
			if !r.begin(fmt.Sprintf("c-dist1/idx%x/pos%d", idx, p)) {
				continue
			}
			if p < n {
				buf := bytes.Clone(base)
				for v := 0; v < 256; v++ {
					if byte(v) == base[p] {
						continue
					}
					buf[p] = byte(v)
					r.judgeExt(buf, true, func() string { return fmt.Sprintf("canonical %x, byte %d set to %#02x", base, p, v) })
				}
				del := append(bytes.Clone(base[:p]), base[p+1:]...)
				r.judgeExt(del, true, func() string { return fmt.Sprintf("canonical %x, byte %d deleted", base, p) })
			}
			ins := make([]byte, n+1)
			copy(ins, base[:p])
			copy(ins[p+1:], base[p:])
			for v := 0; v < 256; v++ {
				ins[p] = byte(v)
				r.judgeExt(ins, true, func() string { return fmt.Sprintf("canonical %x, %#02x inserted at %d", base, v, p) })
			}
			r.end()
		}
		if bi > 0 && !r.thorough {
			continue
		}
		for p := 0; p < n; p++ {
			for q := p + 1; q < n; q++ {
				if !r.begin(fmt.Sprintf("c-dist2/idx%x/pos%d+%d", idx, p, q)) {
					continue
				}
				buf := bytes.Clone(base)
				for a := 0; a < 256; a++ {
					if byte(a) == base[p] {
						continue
					}
					buf[p] = byte(a)
					for c := 0; c < 256; c++ {
						if byte(c) == base[q] {
							continue
						}
						buf[q] = byte(c)
						r.judgeExt(buf, false, func() string {
							return fmt.Sprintf("canonical %x, byte %d set to %#02x and byte %d set to %#02x", base, p, a, q, c)
						})
					}
				}
				r.end()
			}
		}
	}

	// grammar: sequences of up to 3 extensions (type x declared/actual length) x trailing bytes
	elems, names := c10ExtElems()
	trailers := [][]byte{nil, {0}, {1, 0}, {0, 0, 0}}
	depth := 3
	var rec func(prefix []byte, name string, d int)
	rec = func(prefix []byte, name string, d int) {
		for ti, tr := range trailers {
			ext := append(bytes.Clone(prefix), tr...)
			r.judgeExt(ext, true, func() string { return fmt.Sprintf("grammar %s + %d trailing bytes", name, len(trailers[ti])) })
		}
		if d == depth {
			return
		}
		for i, el := range elems {
			rec(append(bytes.Clone(prefix), el...), name+"/"+names[i], d+1)
		}
	}
	for i, el := range elems {
		if !r.begin("c-grammar/" + names[i]) {
			continue
		}
		if i == 0 {
			rec(nil, "", depth) // the empty sequence, once
		}
		rec(bytes.Clone(el), names[i], 1)
		r.sample("c-grammar", map[string]any{"first_extension": names[i], "first_extension_hex": fmt.Sprintf("%x", el),
			"shape": "up to 3 extensions of type {0,1,255} with declared/actual data lengths {0/0,1/1,4/4,5/5,6/6,5/4,5/6}, then 0-3 trailing bytes"})
		r.end()
	}
}
