//go:build verif

package sunlight

// (b) decoding arbitrary byte strings: never panics; success => re-encoding
// the decoded entry reproduces exactly the consumed prefix; agreement with the
// strict reference decoder (a canonical TileLeaf must be accepted, anything
// else refused).

import (
	"bytes"
	"fmt"
	"math"

	"filippo.io/sunlight/internal/verifmc"
)

// outcome code bits of c10JudgeTile
const (
	c10Strict  = 1 << iota // ReadTileLeaf succeeded
	c10Maybe               // ReadTileLeafMaybeArchival succeeded
	c10Arch                // decoded as archival leaf
	c10Pre                 // decoded as precert entry
	c10Rest                // bytes left after the entry
	c10Viol                // a violation was recorded
	c10NCodes = 1 << iota
)

var c10CodeName = func() (n [c10NCodes]string) {
	for c := range n {
		switch {
		case c&c10Viol != 0:
			n[c] = "violation"
		case c&(c10Strict|c10Maybe) == 0:
			n[c] = "refused"
		default:
			s := "accepted"
			if c&c10Strict == 0 {
				s = "accepted by MaybeArchival only"
			}
			if c&c10Arch != 0 {
				s += " archival"
			}
			if c&c10Pre != 0 {
				s += " precert"
			} else {
				s += " x509"
			}
			if c&c10Rest != 0 {
				s += " +rest"
			}
			n[c] = s
		}
	}
	return n
}()

// c10JudgeTile runs both readers on tile and checks everything the property
// states about decoding one byte string.
func c10JudgeTile(tile []byte) (code int, problems []string) {
	bad := func(f string, a ...any) { problems = append(problems, fmt.Sprintf(f, a...)); code |= c10Viol }
	ref, rerr := verifmc.C10DecodeTileLeaf(tile)
	refOK := rerr == nil
	for k := 0; k < 2; k++ {
		maybe := k == 1
		d := c10Read(maybe, tile)
		if d.panicked != nil {
			bad("%s panicked: %v", c10ReadName[maybe], d.panicked)
			continue
		}
		wantOK := refOK && (maybe || !ref.E.Archival)
		if d.err != nil {
			if wantOK && !ref.TSHigh {
				bad("%s refused a canonical TileLeaf (the reference decoder consumes %d bytes): %v", c10ReadName[maybe], ref.N, d.err)
			}
			continue
		}
		name := c10ReadName[maybe]
		if d.e == nil {
			bad("%s returned neither entry nor error", name)
			continue
		}
		code |= c10Strict << k
		if d.e.RFC6962ArchivalLeaf {
			code |= c10Arch
		}
		if d.e.IsPrecert {
			code |= c10Pre
		}
		if len(d.rest) > 0 {
			code |= c10Rest
		}
		if len(d.rest) > len(tile) || !bytes.Equal(d.rest, tile[len(tile)-len(d.rest):]) {
			bad("%s: the returned rest (%d bytes) is not a suffix of the input", name, len(d.rest))
			continue
		}
		consumed := tile[:len(tile)-len(d.rest)]
		re, p := c10Append(nil, d.e)
		if p != nil {
			bad("%s succeeded but re-encoding the decoded entry panics: %v", name, p)
		} else if !bytes.Equal(re, consumed) {
			bad("%s succeeded on a non-canonical encoding: consumed %x, the decoded entry re-encodes to %x", name, c10Clip(consumed), c10Clip(re))
		}
		if !maybe && d.e.RFC6962ArchivalLeaf {
			bad("ReadTileLeaf returned an entry with RFC6962ArchivalLeaf set")
		}
		if d.e.RFC6962ArchivalLeaf && d.e.LeafIndex != 0 {
			bad("%s returned an archival leaf with LeafIndex %d", name, d.e.LeafIndex)
		}
		if ref.TSHigh {
			continue // acceptance of timestamps >= 2^63 is not judged
		}
		if !wantOK {
			bad("%s accepted a byte string the reference decoder does not recognise as a canonical TileLeaf", name)
			continue
		}
		if len(consumed) != ref.N {
			bad("%s consumed %d bytes, the reference decoder %d", name, len(consumed), ref.N)
		}
		if diff := c10Same(d.e, &ref.E); diff != "" {
			bad("%s: decoded entry differs from the reference decoding: %s", name, diff)
		}
		if maybe {
			mtl, p := c10MTL(d.e)
			if p != nil {
				bad("MerkleTreeLeaf of the decoded entry panicked: %v", p)
			} else if ok, off := verifmc.C10Match(mtl, ref.E.MerkleTreeLeafPieces()); !ok {
				bad("MerkleTreeLeaf of the decoded entry differs from the reference at offset %d", off)
			}
		}
	}
	return code, problems
}

func c10Clip(b []byte) []byte {
	if len(b) > 160 {
		return b[:160]
	}
	return b
}

// c10Base is a canonical encoding (plus what follows it in the tile) with the
// positions of its structural bytes.
type c10Base struct {
	name string
	tile []byte
	// kind per position: 'T' timestamp, 'Y' entry type, 'L' a length prefix,
	// 'X' extension type/length, 'I' leaf index, 'O' opaque body, 'R' trailer
	kind []byte
}

type c10BaseSpec struct {
	precert  bool
	cert     int
	pre      int
	nfp      int
	idx      int64
	ts       int64
	arch     bool
	trailer  int // 0 none, 1 three zero bytes, 2 a second entry
	thorough bool
}

func c10MakeBase(b c10BaseSpec) c10Base {
	s := c10Shape{Precert: b.precert, CertLen: b.cert, PreLen: b.pre, NFP: b.nfp, Index: b.idx, Timestamp: b.ts, Archival: b.arch}
	_, ref := c10Build(s)
	var tile, kind []byte
	add := func(k byte, p []byte) {
		tile = append(tile, p...)
		kind = append(kind, bytes.Repeat([]byte{k}, len(p))...)
	}
	// the layout is spelled out here once more, piece by piece, to label positions
	pieces := ref.TileLeafPieces()
	labels := []byte{'T', 'Y'}
	if b.precert {
		labels = append(labels, 'O')
	}
	labels = append(labels, 'L', 'O', 'L', 'x')
	if b.precert {
		labels = append(labels, 'L', 'O')
	}
	labels = append(labels, 'L')
	for i, p := range pieces {
		k := byte('O') // fingerprints
		if i < len(labels) {
			k = labels[i]
		}
		if k == 'x' {
			if len(p) == 8 {
				add('X', p[:3])
				add('I', p[3:])
			}
			continue
		}
		add(k, p)
	}
	switch b.trailer {
	case 1:
		add('R', []byte{0, 0, 0})
	case 2:
		second := &verifmc.C10Entry{Timestamp: 7, Index: 9, Cert: []byte{0x30, 0x00}}
		add('R', second.TileLeaf())
	}
	s.Variant = b.trailer
	return c10Base{name: s.String(), tile: tile, kind: kind}
}

func c10Bases(thorough bool) []c10Base {
	const i5 = 0x0102030405
	const t8 = 0x0102030405060708
	specs := []c10BaseSpec{
		{false, 0, 0, 0, 0, 0, false, 0, false},
		{false, 1, 0, 0, i5, t8, false, 1, false},
		{true, 0, 0, 0, 0, 0, false, 1, false},
		{true, 1, 2, 1, i5, t8, false, 0, false},
		{false, 2, 0, 1, 1<<40 - 1, math.MaxInt64, false, 2, false},
		{false, 1, 0, 0, 0, t8, true, 1, false},
		{true, 1, 1, 0, 0, t8, true, 2, false},
		{true, 2, 1, 2, 1<<40 - 1, math.MaxInt64, false, 2, false},
		// thorough only
		{false, 3, 0, 2, 1, 1, false, 0, true},
		{false, 0, 0, 1, 0, 0, true, 0, true},
		{false, 256, 0, 0, i5, t8, false, 1, true},
		{false, 255, 0, 1, 256, 255, false, 2, true},
		{true, 0, 1, 1, 1, 1, false, 0, true},
		{true, 3, 0, 0, i5, 0, false, 2, true},
		{true, 0, 0, 2, 0, math.MaxInt64, true, 1, true},
		{true, 256, 255, 1, i5, t8, false, 1, true},
		{true, 1, 256, 0, 255, t8, false, 2, true},
		{false, 1, 0, 2, 65536, 65536, false, 1, true},
		{true, 2, 2, 1, 1 << 39, 1 << 62, false, 0, true},
		{false, 2, 0, 0, 1 << 32, 1 << 32, true, 2, true},
	}
	var out []c10Base
	for _, s := range specs {
		if s.thorough && !thorough {
			continue
		}
		out = append(out, c10MakeBase(s))
	}
	return out
}

func (r *c10Run) judgeMut(tile []byte, origin func() string) {
	code, problems := c10JudgeTile(tile)
	r.tally(c10CodeName[code])
	if len(problems) > 0 {
		r.badTile(tile, origin(), problems)
	}
}

// c10Decode: pairs=false runs the short strings and all distance-1 mutations,
// pairs=true the distance-2 mutations confined to structural bytes.
func c10Decode(r *c10Run, pairs bool) {
	bases := c10Bases(r.thorough)
	if pairs {
		c10DecodePairs(r, bases)
		return
	}
	// every byte string of length <= 2
	if r.begin("b-short/empty") {
		r.judgeMut([]byte{}, func() string { return "empty string" })
		r.end()
	}
	for a := 0; a < 256; a++ {
		if !r.begin(fmt.Sprintf("b-short/%02x", a)) {
			continue
		}
		r.judgeMut([]byte{byte(a)}, func() string { return "1-byte string" })
		for b := 0; b < 256; b++ {
			r.judgeMut([]byte{byte(a), byte(b)}, func() string { return "2-byte string" })
		}
		r.end()
	}
	// the bases themselves, then every distance-1 mutation
	for _, b := range bases {
		if r.begin("b-base/" + b.name) {
			r.judgeMut(b.tile, func() string { return "base " + b.name })
			// every truncation
			for n := 0; n < len(b.tile); n++ {
				r.judgeMut(b.tile[:n:n], func() string { return fmt.Sprintf("base %s truncated to %d bytes", b.name, n) })
			}
			r.end()
		}
		n := len(b.tile)
		for p := 0; p <= n; p++ {
			k := byte('R')
			if p < n {
				k = b.kind[p]
			}
			if !r.begin(fmt.Sprintf("b-dist1/%s/pos%d%c", b.name, p, k)) {
				continue
			}
			if p < n {
				// substitution of position p by every other value
				buf := bytes.Clone(b.tile)
				for v := 0; v < 256; v++ {
					if byte(v) == b.tile[p] {
						continue
					}
					buf[p] = byte(v)
					r.judgeMut(buf, func() string { return fmt.Sprintf("base %s, byte %d set to %#02x", b.name, p, v) })
				}
				// deletion of position p
				del := append(bytes.Clone(b.tile[:p]), b.tile[p+1:]...)
				r.judgeMut(del, func() string { return fmt.Sprintf("base %s, byte %d deleted", b.name, p) })
			}
			// insertion of every value before position p
			ins := make([]byte, n+1)
			copy(ins, b.tile[:p])
			copy(ins[p+1:], b.tile[p:])
			for v := 0; v < 256; v++ {
				ins[p] = byte(v)
				r.judgeMut(ins, func() string { return fmt.Sprintf("base %s, %#02x inserted at %d", b.name, v, p) })
			}
			{
				r.sample("b-dist1", map[string]any{"base": b.name, "base_hex": fmt.Sprintf("%x", b.tile), "kinds": string(b.kind),
					"mutations": "each position x 255 substitutions, 1 deletion, 256 insertions; every truncation"})
			}
			r.end()
		}
	}
}

var c10Edge = []byte{0x00, 0x01, 0x7f, 0x80, 0xfe, 0xff}

func c10DecodePairs(r *c10Run, bases []c10Base) {
	for _, b := range bases {
		var pos []int
		for p, k := range b.kind {
			if k != 'O' && k != 'R' {
				pos = append(pos, p)
			}
		}
		buf := bytes.Clone(b.tile)
		for i, p := range pos {
			for _, q := range pos[i+1:] {
				if !r.begin(fmt.Sprintf("b-dist2/%s/pos%d%c+%d%c", b.name, p, b.kind[p], q, b.kind[q])) {
					continue
				}
				// thorough: all 255 x 255 pairs of other values. quick: the same when both
				// bytes are type/length bytes; a timestamp or leaf-index byte only takes
				// its edge values (the other byte of the pair still takes all 255).
				vals := func(x int) []byte {
					var out []byte
					if !r.thorough && (b.kind[x] == 'T' || b.kind[x] == 'I') {
						for _, v := range c10Edge {
							if v != b.tile[x] {
								out = append(out, v)
							}
						}
						return out
					}
					for v := 0; v < 256; v++ {
						if byte(v) != b.tile[x] {
							out = append(out, byte(v))
						}
					}
					return out
				}
				vp, vq := vals(p), vals(q)
				for _, a := range vp {
					buf[p] = a
					for _, c := range vq {
						buf[q] = c
						r.judgeMut(buf, func() string {
							return fmt.Sprintf("base %s, byte %d set to %#02x and byte %d set to %#02x", b.name, p, a, q, c)
						})
					}
				}
				buf[p], buf[q] = b.tile[p], b.tile[q]
				{
					r.sample("b-dist2", map[string]any{"base": b.name, "base_hex": fmt.Sprintf("%x", b.tile), "positions": []int{p, q},
						"mutations": fmt.Sprintf("%d x %d value pairs", len(vp), len(vq))})
				}
				r.end()
			}
		}
	}
}
