//go:build verif

package sunlight

// (d) tile paths: TilePath -> ParseTilePath identity over a coordinate grid,
// and every string of a small path grammar: ParseTilePath success =>
// TilePath(parsed) == input, agreement with the reference path parser.

import (
	"fmt"
	"math"
	"strings"

	"filippo.io/sunlight/internal/verifmc"
	"golang.org/x/mod/sumdb/tlog"
)

func c10TilePath(t tlog.Tile) (p string, panicked any) {
	defer func() {
		if r := recover(); r != nil {
			panicked = r
		}
	}()
	return TilePath(t), nil
}

func c10ParsePath(p string) (t tlog.Tile, err error, panicked any) {
	defer func() {
		if r := recover(); r != nil {
			panicked = r
		}
	}()
	t, err = ParseTilePath(p)
	return
}

func c10Coord(t tlog.Tile) verifmc.TileCoord {
	switch t.L {
	case -2:
		return verifmc.TileCoord{Kind: "names", N: t.N, W: t.W}
	case -1:
		return verifmc.TileCoord{Kind: "data", N: t.N, W: t.W}
	}
	return verifmc.TileCoord{Kind: "hash", L: t.L, N: t.N, W: t.W}
}

func c10JudgeCoord(l int, n int64, w int) (outcome string, problems []string) {
	bad := func(f string, a ...any) { problems = append(problems, fmt.Sprintf(f, a...)) }
	t := tlog.Tile{H: TileHeight, L: l, N: n, W: w}
	want := c10Coord(t).Path()
	p, panicked := c10TilePath(t)
	if panicked != nil {
		bad("TilePath(%+v) panicked: %v", t, panicked)
		return "violation", problems
	}
	if p != want {
		bad("TilePath(%+v) = %q, the reference path is %q", t, p, want)
	}
	back, err, panicked := c10ParsePath(p)
	switch {
	case panicked != nil:
		bad("ParseTilePath(%q) panicked: %v", p, panicked)
	case err != nil:
		bad("ParseTilePath refused %q, the path of %+v: %v", p, t, err)
	case back != t:
		bad("ParseTilePath(TilePath(%+v)) = %+v", t, back)
	}
	if rc, ok := verifmc.ParseTilePathRef(want); !ok || rc != c10Coord(t) {
		bad("reference parser does not round-trip %q (%+v, %v): harness defect", want, rc, ok)
	}
	if len(problems) > 0 {
		return "violation", problems
	}
	o := "hash"
	if l < 0 {
		o = c10Coord(t).Kind
	}
	if w == TileWidth {
		return o + " full round trip", nil
	}
	return o + " partial round trip", nil
}

func c10JudgePath(p string) (outcome string, problems []string) {
	bad := func(f string, a ...any) { problems = append(problems, fmt.Sprintf(f, a...)) }
	t, err, panicked := c10ParsePath(p)
	if panicked != nil {
		bad("ParseTilePath(%q) panicked: %v", p, panicked)
		return "violation", problems
	}
	// the reference parser handles at most 6 three-digit groups without overflow
	ref, refOK := verifmc.TileCoord{}, false
	slashes := strings.Count(p, "/")
	refUsable := slashes <= 7 || (slashes == 8 && strings.Contains(p, ".p/"))
	if refUsable {
		ref, refOK = verifmc.ParseTilePathRef(p)
	}
	if err != nil {
		if refOK && ref.L <= 63 {
			bad("ParseTilePath refused %q, the canonical path of %+v: %v", p, ref, err)
			return "violation", problems
		}
		return "refused", nil
	}
	if t.H != TileHeight || t.W < 1 || t.W > TileWidth || t.N < 0 || t.L < -2 {
		bad("ParseTilePath(%q) = %+v which is not a tile of height %d", p, t, TileHeight)
	}
	back, panicked := c10TilePath(t)
	if panicked != nil {
		bad("ParseTilePath(%q) = %+v on which TilePath panics: %v", p, t, panicked)
	} else if back != p {
		bad("ParseTilePath accepted the non-canonical path %q: it parses to %+v whose path is %q", p, t, back)
	}
	outcome = "accepted " + c10Coord(t).Kind
	if t.W != TileWidth {
		outcome += " partial"
	}
	switch {
	case !refUsable:
		outcome += " (more than 6 groups: round trip only)"
	case refOK && ref != c10Coord(t):
		bad("ParseTilePath(%q) = %+v, the reference parser gives %+v", p, t, ref)
	case !refOK && t.L > 63:
		// tlog levels end at 63; the property only asks for the round trip here
		outcome += " level > 63 (round trip only)"
	case !refOK:
		bad("ParseTilePath accepted %q (%+v) which the reference parser does not recognise as canonical", p, t)
	}
	if len(problems) > 0 {
		return "violation", problems
	}
	return outcome, nil
}

var c10PathAlphabet = []string{
	"tile", "data", "names", "0", "1", "8", "000", "001", "999", "x000", "x001", "x999", "1000",
	"000.p", "001.p", "x001.p", ".p", "255", "256", "257", "", "x1", "01", "-1", "+1", "00",
}

func c10Paths(r *c10Run) {
	// TilePath -> ParseTilePath over the coordinate grid
	levels := []int{-2, -1, 0, 1, 2, 3, 4, 5, 63}
	ns := []int64{0, 1, 2, 9, 10, 99, 100, 255, 256, 998, 999, 1000, 1001, 1999, 2000, 9999, 10000, 999000, 999999, 1000000, 1000001, 1000999,
		1001000, 1001001, 999999999, 1000000000, 1000000001, 1 << 32, 1 << 40, 999999999999, 1000000000000, 1000000000001,
		1000000000000000, 999999999999999999, 1000000000000000000, math.MaxInt64 - 1, math.MaxInt64}
	if r.thorough {
		for l := 6; l < 63; l++ {
			levels = append(levels, l)
		}
		for k := int64(0); k < 1200; k++ { // dense around the group boundaries
			ns = append(ns, 2+k)
			if k < 600 {
				ns = append(ns, 1000000-300+k, 1000000000-300+k)
			}
		}
	}
	for _, l := range levels {
		seen := map[int64]bool{}
		for _, n := range ns {
			if seen[n] {
				continue
			}
			seen[n] = true
			if !r.begin(fmt.Sprintf("d-coord/L%d/N%d", l, n)) {
				continue
			}
			for w := 1; w <= TileWidth; w++ {
				outcome, problems := c10JudgeCoord(l, n, w)
				r.tally(outcome)
				if len(problems) > 0 {
					r.violation("path-encode", c10CoordInput{l, n, w}, problems)
				}
			}
			r.sample("d-coord", map[string]any{"l": l, "n": n, "w": "1..256", "path_w1": c10Coord(tlog.Tile{H: 8, L: l, N: n, W: 1}).Path()})
			r.end()
		}
	}

	// targeted strings: int64 overflow of N, more than 6 groups
	if r.begin("d-special/overflow") {
		for _, p := range []string{
			"tile/0/x009/x223/x372/x036/x854/x775/807", "tile/0/x009/x223/x372/x036/x854/x775/808", "tile/0/x009/x223/x372/x036/x854/x776/000",
			"tile/data/x009/x223/x372/x036/x854/x775/807.p/255", "tile/names/x009/x223/x372/x036/x854/x775/808.p/1",
			"tile/0/x018/x446/x744/x073/x709/x551/616", "tile/0/x018/x446/x744/x073/x709/x551/617", "tile/0/x999/x999/x999/x999/x999/x999/999",
			"tile/0/x001/x000/x000/x000/x000/x000/x000/000", "tile/0/x018/x446/x744/x073/x709/x552/000",
			"tile/1/x036/x893/x488/x147/x419/x103/232", "tile/18446744073709551616/000", "tile/4294967296/000", "tile/9223372036854775808/000",
			"tile/0/000.p/18446744073709551617", "tile/0/000.p/4294967297", "tile/0/000.p/-255", "tile/0/000.p/0", "tile/0/000.p/256", "tile/0/000.p/257",
			"tile/0/000.p/255", "tile/0/000.p/1", "tile/0/000.p/01", "tile/0/000.p/+1", "tile/0/000.p/1/", "tile/0/000.p", "tile/0/.p/1",
			"tile/63/000", "tile/64/000", "tile/99/000", "tile/100/000", "tile/00/000", "tile/-0/000", "tile/8/8/000", "tile/8/data/000",
			"tile/names/data/000", "tile/data/names/000", "tile/names/names/000", "tile/names", "tile/data", "tile/names/", "tile/data/", "tile/", "tile",
			"/tile/0/000", "tile//0/000", "tile/0//000", "tile/0/000/", "Tile/0/000", "tile/0/0000", "tile/0/00", "tile/0/x00/000", "tile/0/x0000/000",
			"tile/0/X001/000", "tile/0/xx01/000", "tile/0/x001/x000", "tile/0/001/000", "tile/0/x-01/000", "tile/0/x+01/000", "tile/0/x 01/000",
			"tile/0/000.p/ 1", "tile/0/000.P/1", "tile/0/000.p/1.p/1", "tile/0/000.p.p/1", "tile/0/x001.p/000", "tile/0/x001.p/255",
		} {
			outcome, problems := c10JudgePath(p)
			r.tally(outcome)
			if len(problems) > 0 {
				r.violation("path-parse", c10PathInput{p}, problems)
			}
		}
		r.end()
	}

	// grammar: all sequences of 1..depth segments over the alphabet, joined by "/"
	depth := 5
	if r.thorough {
		depth = 6
	}
	A := c10PathAlphabet
	judge := func(p string) {
		outcome, problems := c10JudgePath(p)
		r.tally(outcome)
		if len(problems) > 0 {
			r.violation("path-parse", c10PathInput{p}, problems)
		}
	}
	if r.begin("d-grammar/depth1") {
		for _, s := range A {
			judge(s)
		}
		r.end()
	}
	for d := 2; d <= depth; d++ {
		for _, s0 := range A {
			for _, s1 := range A {
				if !r.begin(fmt.Sprintf("d-grammar/depth%d/%s/%s", d, s0, s1)) {
					continue
				}
				var rec func(prefix string, left int)
				rec = func(prefix string, left int) {
					if left == 0 {
						judge(prefix)
						return
					}
					for _, s := range A {
						rec(prefix+"/"+s, left-1)
					}
				}
				rec(s0+"/"+s1, d-2)
				if d == depth {
					r.sample("d-grammar", map[string]any{"alphabet": A, "depth": d, "prefix": s0 + "/" + s1, "last_string": s0 + "/" + s1 + strings.Repeat("/"+A[len(A)-1], d-2)})
				}
				r.end()
			}
		}
	}
}
