//go:build verif

package ctlog

// Exported model-storage adaptors (compiled into package ctlog proper under the
// verif tag, by build overlay) so that harnesses of OTHER packages (witness) can
// put ctlog.Backend / ctlog.LockBackend on top of verifmc model stores, whose
// operations are scheduling points with fault choices and crash fencing.

import (
	"bytes"
	"context"
	"crypto/sha256"
	"encoding/hex"
	"errors"

	"filippo.io/sunlight/internal/verifmc"
	"github.com/prometheus/client_golang/prometheus"
)

type MCBackend struct{ H *verifmc.Handle }

func (b *MCBackend) Upload(ctx context.Context, key string, data []byte, opts *UploadOptions) error {
	if err := ctx.Err(); err != nil {
		return err
	}
	return b.H.Upload(key, data, opts != nil && opts.Immutable)
}

func (b *MCBackend) Fetch(ctx context.Context, key string) ([]byte, error) {
	if err := ctx.Err(); err != nil {
		return nil, err
	}
	return b.H.Fetch(key)
}

func (b *MCBackend) Discard(ctx context.Context, key string) error {
	if err := ctx.Err(); err != nil {
		return err
	}
	return b.H.Discard(key)
}

func (b *MCBackend) Metrics() []prometheus.Collector { return nil }

type MCLock struct{ H *verifmc.Handle }

type MCLocked struct {
	Key  string
	Body []byte
}

func (c *MCLocked) Bytes() []byte { return c.Body }

func (l *MCLock) Fetch(ctx context.Context, logID [sha256.Size]byte) (LockedCheckpoint, error) {
	if err := ctx.Err(); err != nil {
		return nil, err
	}
	key := hex.EncodeToString(logID[:])
	v, err := l.H.Fetch(key)
	if errors.Is(err, verifmc.ErrNotFound) {
		return nil, ErrLogNotFound
	}
	if err != nil {
		return nil, err
	}
	return &MCLocked{Key: key, Body: v}, nil
}

func (l *MCLock) Replace(ctx context.Context, old LockedCheckpoint, new []byte) (LockedCheckpoint, error) {
	if err := ctx.Err(); err != nil {
		return nil, err
	}
	o := old.(*MCLocked)
	if err := l.H.Replace(o.Key, o.Body, new); err != nil {
		return nil, err
	}
	return &MCLocked{Key: o.Key, Body: bytes.Clone(new)}, nil
}

func (l *MCLock) Create(ctx context.Context, logID [sha256.Size]byte, new []byte) error {
	if err := ctx.Err(); err != nil {
		return err
	}
	return l.H.Create(hex.EncodeToString(logID[:]), new)
}
