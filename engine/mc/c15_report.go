package verifmc

import "time"

// Additions for checks that combine an enumeration reported through Report
// (engine E2) with Explorer runs (engine E1) in one shard result.

// AddStats appends the statistics of an Explorer run to the shard result; the
// violations it found move to the result's violation list (with their picks
// and traces) and a non-exhaustive exploration makes the run non-exhaustive.
func (rp *Report) AddStats(st Stats) {
	rp.mu.Lock()
	defer rp.mu.Unlock()
	for _, f := range st.ViolationList {
		if len(rp.r.Violations) < 20 {
			rp.r.Violations = append(rp.r.Violations, f)
		}
	}
	st.ViolationList = nil
	rp.r.Stats = append(rp.r.Stats, st)
	if !st.Exhaustive {
		rp.r.Exhaustive = false
	}
}

// AddFound records a violation together with the schedule that produced it.
func (rp *Report) AddFound(f Found) {
	rp.mu.Lock()
	defer rp.mu.Unlock()
	if len(rp.r.Violations) < 20 {
		rp.r.Violations = append(rp.r.Violations, f)
	}
}

// Deadline is the end of the shard's time budget.
func (rp *Report) Deadline() time.Time { return rp.deadline }

// Start is when the report was created.
func (rp *Report) Start() time.Time { return rp.start }

// ShardOf returns (shard, nshards).
func (rp *Report) ShardOf() (int, int) { return rp.r.Shard, rp.r.NShards }
