package verifmc

// Engine E3 "crashfs" (property C13): strace parser, abstract POSIX file system
// with an explicit persistence model, crash-state enumerator and a
// reader/writer interleaving explorer. Standard library only; knows nothing
// about the code under test.
//
// Persistence model (the trusted part, the usual one of ALICE / CrashMonkey):
// every mutation is an *effect* owned by exactly one inode and stays pending
// until an fsync/fdatasync on a descriptor of that inode:
//   - a file's own metadata (initialisation of a new inode, mode, inode flags)
//     and its data (write, truncate) are owned by the file;
//   - directory entries (create, mkdir, rename, unlink) are owned by the
//     directory that holds the entry; a new directory's own metadata is owned
//     by the new directory.
// After a crash any subset of the pending effects may have reached the disk (in
// any combination, i.e. also "out of order"); a surviving un-synced write may
// have persisted only a strict prefix of its bytes.

import (
	"bufio"
	"bytes"
	"fmt"
	"os"
	"sort"
	"strconv"
	"strings"
)

// ---------------------------------------------------------------- trace parsing

// C13Syscall is one completed system call of the trace.
type C13Syscall struct {
	Line  int // 1-based line of the completion record in the trace file
	Pid   int
	Name  string
	Args  []string // raw top-level arguments
	Ret   int64
	Errno string // "" when the call succeeded
	Raw   string
}

// C13ParseTrace parses `strace -f -xx -o file` output, merging
// "<unfinished ...>" / "<... resumed>" pairs. The position of a call is the
// position of its completion.
func C13ParseTrace(path string) ([]*C13Syscall, error) {
	f, err := os.Open(path)
	if err != nil {
		return nil, err
	}
	defer f.Close()
	var out []*C13Syscall
	unfinished := map[int]string{}
	sc := bufio.NewScanner(f)
	sc.Buffer(make([]byte, 1<<20), 1<<28)
	ln := 0
	for sc.Scan() {
		ln++
		line := sc.Text()
		sp := strings.IndexByte(line, ' ')
		if sp <= 0 {
			continue
		}
		pid, err := strconv.Atoi(line[:sp])
		if err != nil {
			return nil, fmt.Errorf("trace line %d: no pid: %.80q", ln, line)
		}
		rest := strings.TrimLeft(line[sp:], " ")
		if strings.HasPrefix(rest, "---") || strings.HasPrefix(rest, "+++") {
			continue
		}
		if strings.HasSuffix(rest, "<unfinished ...>") {
			unfinished[pid] = strings.TrimSuffix(rest, "<unfinished ...>")
			continue
		}
		if strings.HasPrefix(rest, "<... ") {
			i := strings.Index(rest, " resumed>")
			if i < 0 {
				return nil, fmt.Errorf("trace line %d: bad resume: %.80q", ln, line)
			}
			head, ok := unfinished[pid]
			if !ok {
				return nil, fmt.Errorf("trace line %d: resume without start: %.80q", ln, line)
			}
			delete(unfinished, pid)
			rest = head + rest[i+len(" resumed>"):]
		}
		s, err := c13ParseCall(rest)
		if err != nil {
			return nil, fmt.Errorf("trace line %d: %v: %.120q", ln, err, rest)
		}
		if s == nil {
			continue
		}
		s.Line, s.Pid = ln, pid
		out = append(out, s)
	}
	return out, sc.Err()
}

func c13ParseCall(s string) (*C13Syscall, error) {
	op := strings.IndexByte(s, '(')
	if op <= 0 {
		return nil, fmt.Errorf("no '('")
	}
	name := s[:op]
	// find the matching close paren, honouring strings and brackets
	depth, inStr := 0, false
	end := -1
	var args []string
	start := op + 1
	for i := op; i < len(s); i++ {
		c := s[i]
		if inStr {
			if c == '\\' {
				i++
			} else if c == '"' {
				inStr = false
			}
			continue
		}
		switch c {
		case '"':
			inStr = true
		case '(', '[', '{':
			depth++
		case ')', ']', '}':
			depth--
			if depth == 0 && c == ')' {
				end = i
			}
		case ',':
			if depth == 1 {
				args = append(args, strings.TrimSpace(s[start:i]))
				start = i + 1
			}
		}
		if end >= 0 {
			break
		}
	}
	if end < 0 {
		return nil, fmt.Errorf("no matching ')'")
	}
	if a := strings.TrimSpace(s[start:end]); a != "" || len(args) > 0 {
		args = append(args, a)
	}
	tail := strings.TrimSpace(s[end+1:])
	if !strings.HasPrefix(tail, "=") {
		return nil, fmt.Errorf("no result")
	}
	tail = strings.TrimSpace(tail[1:])
	fields := strings.Fields(tail)
	if len(fields) == 0 {
		return nil, fmt.Errorf("empty result")
	}
	r := &C13Syscall{Name: name, Args: args, Raw: s}
	if fields[0] == "?" {
		// interrupted, will be restarted and show up again
		return nil, nil
	}
	v, err := strconv.ParseInt(fields[0], 0, 64)
	if err != nil {
		return nil, fmt.Errorf("bad result %q", fields[0])
	}
	r.Ret = v
	if v < 0 && len(fields) > 1 {
		r.Errno = fields[1]
	}
	return r, nil
}

// C13Str decodes a strace string argument ("\x41\x42"... or plain with escapes).
func C13Str(arg string) (val []byte, truncated bool, ok bool) {
	arg = strings.TrimSpace(arg)
	if !strings.HasPrefix(arg, "\"") {
		return nil, false, false
	}
	if strings.HasSuffix(arg, "...") {
		truncated = true
		arg = strings.TrimSuffix(arg, "...")
	}
	if len(arg) < 2 || arg[len(arg)-1] != '"' {
		return nil, false, false
	}
	body := arg[1 : len(arg)-1]
	var b bytes.Buffer
	for i := 0; i < len(body); i++ {
		c := body[i]
		if c != '\\' {
			b.WriteByte(c)
			continue
		}
		i++
		if i >= len(body) {
			return nil, false, false
		}
		switch body[i] {
		case 'x':
			if i+3 > len(body) {
				return nil, false, false
			}
			v, err := strconv.ParseUint(body[i+1:i+3], 16, 8)
			if err != nil {
				return nil, false, false
			}
			b.WriteByte(byte(v))
			i += 2
		case 'n':
			b.WriteByte('\n')
		case 't':
			b.WriteByte('\t')
		case 'r':
			b.WriteByte('\r')
		case '\\', '"':
			b.WriteByte(body[i])
		default:
			// octal
			j := i
			for j < len(body) && j < i+3 && body[j] >= '0' && body[j] <= '7' {
				j++
			}
			if j == i {
				return nil, false, false
			}
			v, _ := strconv.ParseUint(body[i:j], 8, 16)
			b.WriteByte(byte(v))
			i = j - 1
		}
	}
	return b.Bytes(), truncated, true
}

func c13Int(arg string) (int64, bool) {
	arg = strings.TrimSpace(arg)
	if arg == "AT_FDCWD" {
		return -100, true
	}
	v, err := strconv.ParseInt(arg, 0, 64)
	return v, err == nil
}

// ---------------------------------------------------------------- abstract FS

type c13Inode struct {
	id  int
	dir bool
	// volatile (page cache) state
	mode    uint32
	data    []byte // never mutated in place
	entries map[string]int
	imm     bool
	// persisted (on disk) state
	pInit    bool
	pMode    uint32
	pData    []byte
	pEntries map[string]int
	pImm     bool
}

// Effect kinds.
const (
	C13EInit   = "init"   // a new inode's metadata (mode)
	C13EChmod  = "chmod"  // mode change
	C13EWrite  = "write"  // data at offset
	C13ETrunc  = "trunc"  // truncate to zero
	C13EFlags  = "flags"  // inode flags (immutable)
	C13ELink   = "link"   // directory entry name -> inode (creat, mkdir, rename target in another dir)
	C13EUnlink = "unlink" // directory entry removed
	C13ERename = "rename" // entry renamed inside one directory (atomic)
)

// C13Effect is one pending (not yet durable) mutation.
type C13Effect struct {
	Seq    int    `json:"seq"`   // index of the syscall (in the replayed list) that caused it
	Sub    int    `json:"sub"`   // ordinal among the effects of that syscall
	Owner  int    `json:"owner"` // inode whose fsync makes it durable
	Kind   string `json:"kind"`
	Name   string `json:"name,omitempty"`
	Name2  string `json:"name2,omitempty"`
	Target int    `json:"target,omitempty"`
	Mode   uint32 `json:"mode,omitempty"`
	Off    int64  `json:"off,omitempty"`
	Data   []byte `json:"-"`
	Len    int    `json:"len,omitempty"`
	Flag   bool   `json:"flag,omitempty"`
	What   string `json:"what"` // human readable
}

type c13Open struct {
	ino int
	off int64
}

// C13FS is the abstract file system below Root.
type C13FS struct {
	Root    string
	Umask   uint32
	inodes  []*c13Inode
	fds     map[int]*c13Open
	Pending []C13Effect
	// Mismatch collects disagreements between the trace and the model (model validation).
	Mismatch []string
	paths    map[int]string // inode -> last known path (diagnostics)
}

func C13NewFS(root string, rootMode uint32) *C13FS {
	fs := &C13FS{Root: strings.TrimRight(root, "/"), Umask: 0o022, fds: map[int]*c13Open{}, paths: map[int]string{}}
	r := &c13Inode{id: 0, dir: true, mode: rootMode, entries: map[string]int{}, pInit: true, pMode: rootMode, pEntries: map[string]int{}}
	fs.inodes = []*c13Inode{r}
	fs.paths[0] = "."
	return fs
}

// Clone returns an independent copy (data slices are shared, they are immutable).
func (fs *C13FS) Clone() *C13FS {
	n := &C13FS{Root: fs.Root, Umask: fs.Umask, fds: map[int]*c13Open{}, paths: map[int]string{}}
	for _, in := range fs.inodes {
		c := *in
		if in.entries != nil {
			c.entries = make(map[string]int, len(in.entries))
			for k, v := range in.entries {
				c.entries[k] = v
			}
		}
		if in.pEntries != nil {
			c.pEntries = make(map[string]int, len(in.pEntries))
			for k, v := range in.pEntries {
				c.pEntries[k] = v
			}
		}
		n.inodes = append(n.inodes, &c)
	}
	for k, v := range fs.fds {
		o := *v
		n.fds[k] = &o
	}
	for k, v := range fs.paths {
		n.paths[k] = v
	}
	n.Pending = append([]C13Effect(nil), fs.Pending...)
	n.Mismatch = append([]string(nil), fs.Mismatch...)
	return n
}

// Rel returns the path relative to Root, or ok=false if it is not below Root.
func (fs *C13FS) Rel(p string) (string, bool) {
	if p == fs.Root {
		return "", true
	}
	if strings.HasPrefix(p, fs.Root+"/") {
		return strings.Trim(p[len(fs.Root)+1:], "/"), true
	}
	return "", false
}

func c13Split(rel string) []string {
	var out []string
	for _, c := range strings.Split(rel, "/") {
		if c == "" || c == "." {
			continue
		}
		out = append(out, c)
	}
	return out
}

// lookup resolves rel in the volatile tree: (parent inode, leaf name, inode or -1).
func (fs *C13FS) lookup(rel string) (parent int, name string, ino int, err string) {
	comps := c13Split(rel)
	if len(comps) == 0 {
		return -1, "", 0, ""
	}
	cur := 0
	for i, c := range comps {
		d := fs.inodes[cur]
		if !d.dir {
			return -1, "", -1, "ENOTDIR"
		}
		if c == ".." {
			return -1, "", -1, "EDOTDOT"
		}
		nx, ok := d.entries[c]
		if i == len(comps)-1 {
			if !ok {
				return cur, c, -1, ""
			}
			return cur, c, nx, ""
		}
		if !ok {
			return -1, "", -1, "ENOENT"
		}
		cur = nx
	}
	return -1, "", -1, "ENOENT"
}

func (fs *C13FS) addEffect(seq int, e C13Effect) {
	e.Seq = seq
	for _, p := range fs.Pending {
		if p.Seq == seq {
			e.Sub++
		}
	}
	fs.Pending = append(fs.Pending, e)
}

func (fs *C13FS) mismatch(seq int, s *C13Syscall, format string, a ...any) {
	if len(fs.Mismatch) < 20 {
		fs.Mismatch = append(fs.Mismatch, fmt.Sprintf("syscall #%d (trace line %d, %s): ", seq, s.Line, s.Name)+fmt.Sprintf(format, a...))
	}
}

// C13Relevant reports whether the call touches the abstract file system
// (a path below Root or a descriptor opened on one). It must be called in trace
// order on the same FS that Apply is called on.
func (fs *C13FS) C13Relevant(s *C13Syscall) bool {
	switch s.Name {
	case "openat", "open", "creat", "mkdir", "mkdirat", "unlink", "unlinkat", "rename", "renameat", "renameat2", "chmod", "fchmodat":
		for _, a := range s.Args {
			if b, _, ok := C13Str(a); ok {
				if _, in := fs.Rel(string(b)); in {
					return true
				}
			}
		}
		return false
	case "write", "pwrite64", "read", "pread64", "fsync", "fdatasync", "close", "fchmod", "ioctl":
		if len(s.Args) == 0 {
			return false
		}
		fd, ok := c13Int(s.Args[0])
		if !ok {
			return false
		}
		_, tracked := fs.fds[int(fd)]
		return tracked
	}
	return false
}

func c13PathArg(s *C13Syscall, idx int) (string, bool) {
	if idx >= len(s.Args) {
		return "", false
	}
	b, trunc, ok := C13Str(s.Args[idx])
	if !ok || trunc {
		return "", false
	}
	return string(b), true
}

// Apply replays one relevant system call (seq is its index in the caller's
// list). Failed calls have no effect; a few of them are cross-checked against
// the model.
func (fs *C13FS) Apply(seq int, s *C13Syscall) {
	switch s.Name {
	case "openat", "open", "creat":
		pi := 0
		if s.Name == "openat" {
			pi = 1
		}
		p, ok := c13PathArg(s, pi)
		if !ok {
			fs.mismatch(seq, s, "unparsable path")
			return
		}
		rel, in := fs.Rel(p)
		if !in {
			return
		}
		flags := ""
		if s.Name == "creat" {
			flags = "O_WRONLY|O_CREAT|O_TRUNC"
		} else if pi+1 < len(s.Args) {
			flags = s.Args[pi+1]
		}
		has := func(f string) bool {
			for _, x := range strings.Split(flags, "|") {
				if x == f {
					return true
				}
			}
			return false
		}
		var mode uint32
		if has("O_CREAT") && len(s.Args) > 0 {
			if v, ok := c13Int(s.Args[len(s.Args)-1]); ok {
				mode = uint32(v)
			}
		}
		parent, name, ino, lerr := fs.lookup(rel)
		if s.Ret < 0 {
			switch s.Errno {
			case "ENOENT":
				if lerr == "" && ino >= 0 {
					fs.mismatch(seq, s, "trace says ENOENT for %q but the model has it", rel)
				}
			case "EEXIST":
				if lerr == "" && ino < 0 {
					fs.mismatch(seq, s, "trace says EEXIST for %q but the model does not have it", rel)
				}
			}
			return
		}
		if lerr != "" {
			fs.mismatch(seq, s, "open of %q succeeded but the model says %s", rel, lerr)
			return
		}
		if ino < 0 {
			if !has("O_CREAT") {
				fs.mismatch(seq, s, "open of %q succeeded without O_CREAT but the model does not have it", rel)
				return
			}
			n := &c13Inode{id: len(fs.inodes), mode: mode &^ fs.Umask}
			fs.inodes = append(fs.inodes, n)
			fs.inodes[parent].entries[name] = n.id
			fs.paths[n.id] = rel
			fs.addEffect(seq, C13Effect{Owner: parent, Kind: C13ELink, Name: name, Target: n.id, What: fmt.Sprintf("create entry %q in dir %q", name, fs.paths[parent])})
			fs.addEffect(seq, C13Effect{Owner: n.id, Kind: C13EInit, Mode: n.mode, What: fmt.Sprintf("initialise new file inode %q mode %04o", rel, n.mode)})
			ino = n.id
		} else {
			if has("O_CREAT") && has("O_EXCL") {
				fs.mismatch(seq, s, "O_EXCL create of %q succeeded but the model has it", rel)
			}
			n := fs.inodes[ino]
			if has("O_TRUNC") && !n.dir {
				n.data = nil
				fs.addEffect(seq, C13Effect{Owner: ino, Kind: C13ETrunc, What: fmt.Sprintf("truncate %q", rel)})
			}
		}
		fs.fds[int(s.Ret)] = &c13Open{ino: ino}
	case "close":
		fd, _ := c13Int(s.Args[0])
		delete(fs.fds, int(fd))
	case "write", "pwrite64":
		fd, _ := c13Int(s.Args[0])
		o := fs.fds[int(fd)]
		if o == nil || s.Ret < 0 {
			return
		}
		data, _, ok := C13Str(s.Args[1])
		if !ok || int64(len(data)) < s.Ret {
			fs.mismatch(seq, s, "write data not fully captured (%d of %d bytes)", len(data), s.Ret)
			return
		}
		data = data[:s.Ret]
		off := o.off
		if s.Name == "pwrite64" {
			if v, ok := c13Int(s.Args[3]); ok {
				off = v
			}
		}
		n := fs.inodes[o.ino]
		n.data = c13WriteAt(n.data, off, data)
		if s.Name == "write" {
			o.off += s.Ret
		}
		if len(data) > 0 {
			fs.addEffect(seq, C13Effect{Owner: o.ino, Kind: C13EWrite, Off: off, Data: data, Len: len(data), What: fmt.Sprintf("write %d bytes at %d to %q", len(data), off, fs.paths[o.ino])})
		}
	case "read", "pread64":
		fd, _ := c13Int(s.Args[0])
		o := fs.fds[int(fd)]
		if o == nil {
			return
		}
		n := fs.inodes[o.ino]
		if s.Ret < 0 {
			if !n.dir {
				fs.mismatch(seq, s, "read failed with %s", s.Errno)
			}
			return
		}
		if n.dir {
			fs.mismatch(seq, s, "read on a directory succeeded")
			return
		}
		cnt, _ := c13Int(s.Args[2])
		off := o.off
		if s.Name == "pread64" {
			off, _ = c13Int(s.Args[3])
		}
		want := int64(len(n.data)) - off
		if want < 0 {
			want = 0
		}
		if want > cnt {
			want = cnt
		}
		if want != s.Ret {
			fs.mismatch(seq, s, "read returned %d bytes, the model expects %d", s.Ret, want)
		} else if got, _, ok := C13Str(s.Args[1]); ok && int64(len(got)) >= want && !bytes.Equal(got[:want], n.data[off:off+want]) {
			fs.mismatch(seq, s, "read returned different bytes than the model holds")
		}
		if s.Name == "read" {
			o.off += s.Ret
		}
	case "fsync", "fdatasync":
		fd, _ := c13Int(s.Args[0])
		o := fs.fds[int(fd)]
		if o == nil || s.Ret < 0 {
			return
		}
		fs.Sync(o.ino)
	case "fchmod":
		fd, _ := c13Int(s.Args[0])
		o := fs.fds[int(fd)]
		if o == nil || s.Ret < 0 {
			return
		}
		m, _ := c13Int(s.Args[1])
		fs.inodes[o.ino].mode = uint32(m) & 0o7777
		fs.addEffect(seq, C13Effect{Owner: o.ino, Kind: C13EChmod, Mode: uint32(m) & 0o7777, What: fmt.Sprintf("chmod %04o %q", m, fs.paths[o.ino])})
	case "chmod", "fchmodat":
		pi := 0
		if s.Name == "fchmodat" {
			pi = 1
		}
		p, ok := c13PathArg(s, pi)
		if !ok || s.Ret < 0 {
			return
		}
		rel, in := fs.Rel(p)
		if !in {
			return
		}
		_, _, ino, lerr := fs.lookup(rel)
		if lerr != "" || ino < 0 {
			fs.mismatch(seq, s, "chmod of %q succeeded but the model does not have it", rel)
			return
		}
		m, _ := c13Int(s.Args[pi+1])
		fs.inodes[ino].mode = uint32(m) & 0o7777
		fs.addEffect(seq, C13Effect{Owner: ino, Kind: C13EChmod, Mode: uint32(m) & 0o7777, What: fmt.Sprintf("chmod %04o %q", m, rel)})
	case "ioctl":
		fd, _ := c13Int(s.Args[0])
		o := fs.fds[int(fd)]
		if o == nil || s.Ret < 0 || len(s.Args) < 3 {
			return
		}
		if !strings.Contains(s.Args[1], "FS_IOC_SETFLAGS") && !strings.Contains(s.Args[1], "0x40086602") {
			return
		}
		set := strings.Contains(s.Args[2], "IMMUTABLE") || strings.Contains(s.Args[2], "0x10")
		fs.inodes[o.ino].imm = set
		fs.addEffect(seq, C13Effect{Owner: o.ino, Kind: C13EFlags, Flag: set, What: fmt.Sprintf("set inode flags immutable=%v on %q", set, fs.paths[o.ino])})
	case "mkdir", "mkdirat":
		pi := 0
		if s.Name == "mkdirat" {
			pi = 1
		}
		p, ok := c13PathArg(s, pi)
		if !ok {
			return
		}
		rel, in := fs.Rel(p)
		if !in {
			return
		}
		parent, name, ino, lerr := fs.lookup(rel)
		if s.Ret < 0 {
			if s.Errno == "EEXIST" && (lerr != "" || ino < 0) {
				fs.mismatch(seq, s, "trace says EEXIST for %q but the model does not have it", rel)
			}
			return
		}
		if lerr != "" || ino >= 0 || parent < 0 {
			fs.mismatch(seq, s, "mkdir of %q succeeded but the model disagrees (%s, ino %d)", rel, lerr, ino)
			return
		}
		m, _ := c13Int(s.Args[pi+1])
		n := &c13Inode{id: len(fs.inodes), dir: true, mode: uint32(m) &^ fs.Umask, entries: map[string]int{}, pEntries: map[string]int{}}
		fs.inodes = append(fs.inodes, n)
		fs.inodes[parent].entries[name] = n.id
		fs.paths[n.id] = rel
		fs.addEffect(seq, C13Effect{Owner: parent, Kind: C13ELink, Name: name, Target: n.id, What: fmt.Sprintf("create entry %q (directory) in dir %q", name, fs.paths[parent])})
		fs.addEffect(seq, C13Effect{Owner: n.id, Kind: C13EInit, Mode: n.mode, What: fmt.Sprintf("initialise new directory inode %q mode %04o", rel, n.mode)})
	case "unlink", "unlinkat":
		pi := 0
		if s.Name == "unlinkat" {
			pi = 1
		}
		p, ok := c13PathArg(s, pi)
		if !ok {
			return
		}
		rel, in := fs.Rel(p)
		if !in {
			return
		}
		parent, name, ino, lerr := fs.lookup(rel)
		if s.Ret < 0 {
			if s.Errno == "ENOENT" && lerr == "" && ino >= 0 {
				fs.mismatch(seq, s, "trace says ENOENT for %q but the model has it", rel)
			}
			return
		}
		if lerr != "" || ino < 0 || parent < 0 {
			fs.mismatch(seq, s, "unlink of %q succeeded but the model does not have it", rel)
			return
		}
		delete(fs.inodes[parent].entries, name)
		fs.addEffect(seq, C13Effect{Owner: parent, Kind: C13EUnlink, Name: name, What: fmt.Sprintf("remove entry %q from dir %q", name, fs.paths[parent])})
	case "rename", "renameat", "renameat2":
		i1, i2 := 0, 1
		if s.Name != "rename" {
			i1, i2 = 1, 3
		}
		p1, ok1 := c13PathArg(s, i1)
		p2, ok2 := c13PathArg(s, i2)
		if !ok1 || !ok2 {
			return
		}
		r1, in1 := fs.Rel(p1)
		r2, in2 := fs.Rel(p2)
		if s.Ret < 0 {
			return
		}
		if !in1 || !in2 {
			fs.mismatch(seq, s, "rename crosses the scratch directory boundary: %q -> %q", p1, p2)
			return
		}
		par1, n1, ino1, e1 := fs.lookup(r1)
		par2, n2, _, e2 := fs.lookup(r2)
		if e1 != "" || e2 != "" || ino1 < 0 || par1 < 0 || par2 < 0 {
			fs.mismatch(seq, s, "rename %q -> %q succeeded but the model disagrees", r1, r2)
			return
		}
		delete(fs.inodes[par1].entries, n1)
		fs.inodes[par2].entries[n2] = ino1
		fs.paths[ino1] = r2
		if par1 == par2 {
			fs.addEffect(seq, C13Effect{Owner: par1, Kind: C13ERename, Name: n1, Name2: n2, Target: ino1, What: fmt.Sprintf("rename %q -> %q in dir %q", n1, n2, fs.paths[par1])})
		} else {
			fs.addEffect(seq, C13Effect{Owner: par2, Kind: C13ELink, Name: n2, Target: ino1, What: fmt.Sprintf("rename target entry %q in dir %q", n2, fs.paths[par2])})
			fs.addEffect(seq, C13Effect{Owner: par1, Kind: C13EUnlink, Name: n1, What: fmt.Sprintf("rename source entry %q removed from dir %q", n1, fs.paths[par1])})
		}
	}
}

func c13WriteAt(old []byte, off int64, data []byte) []byte {
	n := int64(len(old))
	if off+int64(len(data)) > n {
		n = off + int64(len(data))
	}
	out := make([]byte, n)
	copy(out, old)
	copy(out[off:], data)
	return out
}

// shadow is the persisted state of one inode during materialisation.
type c13Shadow struct {
	init    bool
	mode    uint32
	data    []byte
	entries map[string]int
	imm     bool
}

func (fs *C13FS) shadowOf(m map[int]*c13Shadow, ino int) *c13Shadow {
	if s, ok := m[ino]; ok {
		return s
	}
	in := fs.inodes[ino]
	s := &c13Shadow{init: in.pInit, mode: in.pMode, data: in.pData, imm: in.pImm}
	if in.dir {
		s.entries = make(map[string]int, len(in.pEntries)+2)
		for k, v := range in.pEntries {
			s.entries[k] = v
		}
	}
	m[ino] = s
	return s
}

func c13ApplyEffect(s *c13Shadow, e *C13Effect, partial bool) {
	switch e.Kind {
	case C13EInit:
		s.init = true
		s.mode = e.Mode
	case C13EChmod:
		s.mode = e.Mode
	case C13EWrite:
		d := e.Data
		if partial {
			d = d[:len(d)/2]
		}
		s.data = c13WriteAt(s.data, e.Off, d)
	case C13ETrunc:
		s.data = nil
	case C13EFlags:
		s.imm = e.Flag
	case C13ELink:
		s.entries[e.Name] = e.Target
	case C13EUnlink:
		delete(s.entries, e.Name)
	case C13ERename:
		delete(s.entries, e.Name)
		s.entries[e.Name2] = e.Target
	}
}

// Sync makes every pending effect owned by ino durable.
func (fs *C13FS) Sync(ino int) {
	in := fs.inodes[ino]
	keep := fs.Pending[:0:0]
	m := map[int]*c13Shadow{}
	touched := false
	for i := range fs.Pending {
		e := &fs.Pending[i]
		if e.Owner != ino {
			keep = append(keep, *e)
			continue
		}
		c13ApplyEffect(fs.shadowOf(m, ino), e, false)
		touched = true
	}
	if touched {
		s := m[ino]
		in.pInit, in.pMode, in.pData, in.pImm = s.init, s.mode, s.data, s.imm
		if in.dir {
			in.pEntries = s.entries
		}
	}
	fs.Pending = keep
}

// C13Node is one object of a materialised tree.
type C13Node struct {
	Dir  bool
	Init bool // inode metadata reached the disk (false: uninitialised inode behind a durable entry)
	Mode uint32
	Data []byte
	Imm  bool
}

// C13 choice values for a pending effect.
const (
	C13Drop    = 0
	C13Keep    = 1
	C13Partial = 2 // writes only: a strict prefix (half) of the bytes persisted
)

// CrashTree materialises the tree found after a crash in which pending effect i
// was treated according to choice[i].
func (fs *C13FS) CrashTree(choice []int8) map[string]*C13Node {
	m := map[int]*c13Shadow{}
	for i := range fs.Pending {
		if choice[i] == C13Drop {
			continue
		}
		e := &fs.Pending[i]
		c13ApplyEffect(fs.shadowOf(m, e.Owner), e, choice[i] == C13Partial)
	}
	out := map[string]*C13Node{}
	var walk func(ino int, path string, depth int)
	walk = func(ino int, path string, depth int) {
		if depth > 64 {
			return
		}
		in := fs.inodes[ino]
		var s *c13Shadow
		if x, ok := m[ino]; ok {
			s = x
		} else {
			s = &c13Shadow{init: in.pInit, mode: in.pMode, data: in.pData, entries: in.pEntries, imm: in.pImm}
		}
		out[path] = &C13Node{Dir: in.dir, Init: s.init, Mode: s.mode, Data: s.data, Imm: s.imm}
		if in.dir {
			for name, child := range s.entries {
				p := name
				if path != "." {
					p = path + "/" + name
				}
				walk(child, p, depth+1)
			}
		}
	}
	walk(0, ".", 0)
	return out
}

// LiveTree is the tree as a running process sees it (no crash).
func (fs *C13FS) LiveTree() map[string]*C13Node {
	out := map[string]*C13Node{}
	var walk func(ino int, path string)
	walk = func(ino int, path string) {
		in := fs.inodes[ino]
		out[path] = &C13Node{Dir: in.dir, Init: true, Mode: in.mode, Data: in.data, Imm: in.imm}
		for name, child := range in.entries {
			p := name
			if path != "." {
				p = path + "/" + name
			}
			walk(child, p)
		}
	}
	walk(0, ".")
	return out
}

// C13TreeKey is a canonical rendering of a tree (for counting distinct states).
func C13TreeKey(t map[string]*C13Node) string {
	names := make([]string, 0, len(t))
	for k := range t {
		names = append(names, k)
	}
	sort.Strings(names)
	var b strings.Builder
	for _, k := range names {
		n := t[k]
		fmt.Fprintf(&b, "%s|%v|%v|%o|%v|%x\n", k, n.Dir, n.Init, n.Mode, n.Imm, n.Data)
	}
	return b.String()
}

// C13EnumChoices enumerates the treatments of the pending effects. If the full
// product (2 per effect, 3 per write of >= 2 bytes) has at most limit members it
// is enumerated completely (capped=false); otherwise every assignment with at
// most two effects dropped or at most two effects kept is enumerated, with all
// kept writes complete and additionally each single kept write partial.
// visit returns false to stop.
func C13EnumChoices(pending []C13Effect, limit int, visit func(choice []int8) bool) (capped bool) {
	n := len(pending)
	ways := make([]int8, n)
	total := 1
	over := false
	for i := range pending {
		ways[i] = 2
		if pending[i].Kind == C13EWrite && len(pending[i].Data) >= 2 {
			ways[i] = 3
		}
		if !over {
			total *= int(ways[i])
			if total > limit {
				over = true
			}
		}
	}
	choice := make([]int8, n)
	if !over {
		var rec func(i int) bool
		rec = func(i int) bool {
			if i == n {
				return visit(choice)
			}
			for v := int8(0); v < ways[i]; v++ {
				choice[i] = v
				if !rec(i + 1) {
					return false
				}
			}
			return true
		}
		rec(0)
		return false
	}
	emit := func() bool {
		if !visit(choice) {
			return false
		}
		for i := 0; i < n; i++ {
			if choice[i] == C13Keep && ways[i] == 3 {
				choice[i] = C13Partial
				ok := visit(choice)
				choice[i] = C13Keep
				if !ok {
					return false
				}
			}
		}
		return true
	}
	for _, base := range []int8{C13Keep, C13Drop} {
		other := int8(C13Keep + C13Drop - int(base))
		for i := range choice {
			choice[i] = base
		}
		if !emit() {
			return true
		}
		for a := 0; a < n; a++ {
			choice[a] = other
			if !emit() {
				return true
			}
			for b := a + 1; b < n; b++ {
				choice[b] = other
				if !emit() {
					return true
				}
				choice[b] = base
			}
			choice[a] = base
		}
	}
	return true
}

// ---------------------------------------------------------------- reader/writer interleavings

// C13ReadOutcome is what a reader (open; read until EOF; close) observed.
type C13ReadOutcome struct {
	Absent bool
	Data   []byte
}

// C13Interleave runs every interleaving of the writer's system calls (replayed
// on a clone of start) with a reader that opens relPath, reads with the given
// buffer sizes until a read returns 0 and closes. An open descriptor pins its
// inode; the reader's reads see the inode's current bytes. visit gets the
// schedule ("W"/"R" per step) and the reader's outcome; it returns false to stop.
// Returned: number of complete interleavings and of executed steps.
func C13Interleave(start *C13FS, writer []*C13Syscall, writerSeq []int, relPath string, readSizes []int, visit func(schedule string, out C13ReadOutcome) bool) (execs, steps int) {
	type rstate struct {
		phase int // 0 before open, 1 reading, 2 before close, 3 done
		ino   int
		off   int
		nread int
		buf   []byte
		out   C13ReadOutcome
	}
	stop := false
	var rec func(fs *C13FS, wi int, r rstate, sched []byte)
	rec = func(fs *C13FS, wi int, r rstate, sched []byte) {
		if stop {
			return
		}
		if wi == len(writer) && r.phase == 3 {
			execs++
			if !visit(string(sched), r.out) {
				stop = true
			}
			return
		}
		canW, canR := wi < len(writer), r.phase < 3
		if canW {
			f := fs
			if canR {
				f = fs.Clone()
			}
			f.Apply(writerSeq[wi], writer[wi])
			steps++
			rec(f, wi+1, r, append(sched, 'W'))
		}
		if canR && !stop {
			steps++
			switch r.phase {
			case 0:
				_, _, ino, lerr := fs.lookup(relPath)
				if lerr != "" || ino < 0 {
					r.out = C13ReadOutcome{Absent: true}
					r.phase = 3
				} else {
					r.ino = ino
					r.phase = 1
				}
			case 1:
				data := fs.inodes[r.ino].data
				size := readSizes[len(readSizes)-1]
				if r.nread < len(readSizes) {
					size = readSizes[r.nread]
				}
				r.nread++
				n := len(data) - r.off
				if n < 0 {
					n = 0
				}
				if n > size {
					n = size
				}
				if n == 0 {
					r.phase = 2
				} else {
					r.buf = append(append([]byte(nil), r.buf...), data[r.off:r.off+n]...)
					r.off += n
				}
			case 2:
				r.out = C13ReadOutcome{Data: r.buf}
				r.phase = 3
			}
			rec(fs, wi, r, append(sched, 'R'))
		}
	}
	rec(start.Clone(), 0, rstate{}, nil)
	return
}
