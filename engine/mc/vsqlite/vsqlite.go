// Package vsqlite stands in for crawshaw.io/sqlite in instrumented files: same
// types (aliases), but every opened connection is registered so that the harness
// can close connections the code under test leaks on error paths (LoadLog does
// not close its cache connections when it fails after initCache; the real
// process exits, the harness keeps running and crawshaw's finalizer would panic).
package vsqlite

import (
	"reflect"
	"sync"

	real "crawshaw.io/sqlite"
)

type (
	Conn      = real.Conn
	Stmt      = real.Stmt
	OpenFlags = real.OpenFlags
	Error     = real.Error
	ErrorCode = real.ErrorCode
)

const (
	OpenFlagsDefault      = real.OpenFlagsDefault
	SQLITE_OPEN_CREATE    = real.SQLITE_OPEN_CREATE
	SQLITE_OPEN_READONLY  = real.SQLITE_OPEN_READONLY
	SQLITE_OPEN_READWRITE = real.SQLITE_OPEN_READWRITE
	SQLITE_OPEN_URI       = real.SQLITE_OPEN_URI
	SQLITE_OPEN_WAL       = real.SQLITE_OPEN_WAL
	SQLITE_OPEN_NOMUTEX   = real.SQLITE_OPEN_NOMUTEX
)

var (
	mu    sync.Mutex
	conns []*Conn
)

func OpenConn(path string, flags OpenFlags) (*Conn, error) {
	c, err := real.OpenConn(path, flags)
	if err == nil {
		mu.Lock()
		conns = append(conns, c)
		mu.Unlock()
	}
	return c, err
}

// CloseAll closes every connection opened since the last call (closing an
// already closed connection is harmless).
func CloseAll() {
	mu.Lock()
	cs := conns
	conns = nil
	mu.Unlock()
	for _, c := range cs {
		// Closing twice crashes inside crawshaw; its closed flag is unexported.
		if reflect.ValueOf(c).Elem().FieldByName("closed").Bool() {
			continue
		}
		c.Close()
	}
}
