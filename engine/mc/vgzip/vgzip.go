// Package vgzip stands in for compress/gzip in instrumented files. It produces
// byte-identical output but recycles the (1.2 MB) deflate state between writers
// with Reset, which otherwise dominates the cost of an execution.
package vgzip

import (
	"compress/gzip"
	"io"
	"sync"
)

type (
	Reader = gzip.Reader
	Header = gzip.Header
)

const (
	NoCompression      = gzip.NoCompression
	BestSpeed          = gzip.BestSpeed
	BestCompression    = gzip.BestCompression
	DefaultCompression = gzip.DefaultCompression
	HuffmanOnly        = gzip.HuffmanOnly
)

var (
	ErrChecksum = gzip.ErrChecksum
	ErrHeader   = gzip.ErrHeader
)

func NewReader(r io.Reader) (*Reader, error) { return gzip.NewReader(r) }

var pool = sync.Pool{New: func() any { return gzip.NewWriter(io.Discard) }}

type Writer struct{ z *gzip.Writer }

func NewWriter(w io.Writer) *Writer {
	z := pool.Get().(*gzip.Writer)
	z.Reset(w)
	return &Writer{z}
}

func (w *Writer) Write(p []byte) (int, error) { return w.z.Write(p) }
func (w *Writer) Flush() error                { return w.z.Flush() }
func (w *Writer) Close() error {
	err := w.z.Close()
	pool.Put(w.z)
	w.z = nil
	return err
}
