// Package vsync is a drop-in replacement for the parts of package sync that
// Sunlight uses (Mutex, RWMutex). Under the model-checking scheduler each Lock
// is a scheduling point that is enabled only while the mutex can be acquired,
// and a blocked acquirer blocks on a channel (durably, for testing/synctest).
// Without a scheduler (verifmc.Cur == nil) it behaves like a plain mutex.
package vsync

import (
	realsync "sync"

	"filippo.io/sunlight/internal/verifmc"
)

type Mutex struct {
	g       realsync.Mutex
	held    bool
	waiters chan struct{}
}

func (m *Mutex) canLock() bool {
	m.g.Lock()
	defer m.g.Unlock()
	return !m.held
}

func (m *Mutex) Lock() {
	if s := verifmc.Cur; s != nil {
		s.SyncPoint("lock", m.canLock)
	}
	for {
		m.g.Lock()
		if !m.held {
			m.held = true
			m.g.Unlock()
			verifmc.Cur.NoteAcquire(m, "L")
			return
		}
		if m.waiters == nil {
			m.waiters = make(chan struct{})
		}
		w := m.waiters
		m.g.Unlock()
		<-w
	}
}

func (m *Mutex) TryLock() bool {
	m.g.Lock()
	defer m.g.Unlock()
	if m.held {
		return false
	}
	m.held = true
	return true
}

func (m *Mutex) Unlock() {
	m.g.Lock()
	if !m.held {
		m.g.Unlock()
		panic("vsync: unlock of unlocked mutex")
	}
	m.held = false
	if m.waiters != nil {
		close(m.waiters)
		m.waiters = nil
	}
	m.g.Unlock()
}

type RWMutex struct {
	g       realsync.Mutex
	writer  bool
	readers int
	waiters chan struct{}
}

func (m *RWMutex) canLock() bool {
	m.g.Lock()
	defer m.g.Unlock()
	return !m.writer && m.readers == 0
}

func (m *RWMutex) canRLock() bool {
	m.g.Lock()
	defer m.g.Unlock()
	return !m.writer
}

func (m *RWMutex) wait() {
	if m.waiters == nil {
		m.waiters = make(chan struct{})
	}
	w := m.waiters
	m.g.Unlock()
	<-w
}

func (m *RWMutex) wake() {
	if m.waiters != nil {
		close(m.waiters)
		m.waiters = nil
	}
}

func (m *RWMutex) Lock() {
	if s := verifmc.Cur; s != nil {
		s.SyncPoint("wlock", m.canLock)
	}
	for {
		m.g.Lock()
		if !m.writer && m.readers == 0 {
			m.writer = true
			m.g.Unlock()
			verifmc.Cur.NoteAcquire(m, "W")
			return
		}
		m.wait()
	}
}

func (m *RWMutex) Unlock() {
	m.g.Lock()
	if !m.writer {
		m.g.Unlock()
		panic("vsync: unlock of unlocked rwmutex")
	}
	m.writer = false
	m.wake()
	m.g.Unlock()
}

func (m *RWMutex) RLock() {
	if s := verifmc.Cur; s != nil {
		s.SyncPoint("rlock", m.canRLock)
	}
	for {
		m.g.Lock()
		if !m.writer {
			m.readers++
			m.g.Unlock()
			verifmc.Cur.NoteAcquire(m, "R")
			return
		}
		m.wait()
	}
}

func (m *RWMutex) RUnlock() {
	m.g.Lock()
	if m.readers <= 0 {
		m.g.Unlock()
		panic("vsync: runlock of unlocked rwmutex")
	}
	m.readers--
	if m.readers == 0 {
		m.wake()
	}
	m.g.Unlock()
}

// The rest of package sync that instrumented files may reference.
type (
	WaitGroup = realsync.WaitGroup
	Once      = realsync.Once
	Map       = realsync.Map
	Pool      = realsync.Pool
	Cond      = realsync.Cond
	Locker    = realsync.Locker
)

func NewCond(l Locker) *Cond { return realsync.NewCond(l) }
