package verifmc

import (
	"bytes"
	"crypto/sha256"
	"errors"
	"fmt"
	"hash"
	"sort"
	"sync"
)

// Store is the model object store / lock store: a map of byte strings with a
// full history of effective operations. All externally visible effects of the
// system under test go through Handles on Stores, which is where scheduling
// points, fault choices and crash fencing live.
type Store struct {
	Name string
	mu   sync.Mutex
	objs map[string][]byte
	// Events is the history of *effective* mutations, in order.
	Events []Event
	// Canon canonicalises a value for the state key (e.g. signed checkpoints
	// carry random signature bytes); nil means identity.
	Canon func(key string, val []byte) []byte
	// OnEffect is called synchronously (store unlocked) after every operation
	// that was issued, with Applied telling whether it took effect.
	OnEffect func(ev Event)
	// LocalLike: an immutable upload over different bytes is refused and Discard
	// deletes; otherwise (S3-like) uploads overwrite silently and Discard deletes.
	LocalLike bool
	immut     map[string]bool
}

type Event struct {
	Seq     int
	Handle  string
	Thread  string
	Op      string // upload, discard, create, replace, fetch
	Key     string
	Data    []byte
	Old     []byte // previous value (nil if absent)
	HadOld  bool
	Immut   bool
	Applied bool
	Err     string // error reported to the caller ("" = success)
}

func NewStore(name string) *Store {
	return &Store{Name: name, objs: map[string][]byte{}, immut: map[string]bool{}}
}

// Clone copies contents (not history).
func (st *Store) Clone(name string) *Store {
	st.mu.Lock()
	defer st.mu.Unlock()
	n := NewStore(name)
	for k, v := range st.objs {
		n.objs[k] = v // values are never mutated in place
	}
	for k, v := range st.immut {
		n.immut[k] = v
	}
	n.Canon = st.Canon
	n.LocalLike = st.LocalLike
	return n
}

func (st *Store) Get(key string) ([]byte, bool) {
	st.mu.Lock()
	defer st.mu.Unlock()
	v, ok := st.objs[key]
	return v, ok
}

// Set writes directly (tampering, initial state); not recorded as an event.
func (st *Store) Set(key string, val []byte) {
	st.mu.Lock()
	defer st.mu.Unlock()
	st.objs[key] = val
}

func (st *Store) Delete(key string) {
	st.mu.Lock()
	defer st.mu.Unlock()
	delete(st.objs, key)
}

func (st *Store) Keys() []string {
	st.mu.Lock()
	defer st.mu.Unlock()
	ks := make([]string, 0, len(st.objs))
	for k := range st.objs {
		ks = append(ks, k)
	}
	sort.Strings(ks)
	return ks
}

// Snapshot returns a copy of the current contents.
func (st *Store) Snapshot() map[string][]byte {
	st.mu.Lock()
	defer st.mu.Unlock()
	m := make(map[string][]byte, len(st.objs))
	for k, v := range st.objs {
		m[k] = v
	}
	return m
}

func (st *Store) digest(h hash.Hash) {
	st.mu.Lock()
	defer st.mu.Unlock()
	ks := make([]string, 0, len(st.objs))
	for k := range st.objs {
		ks = append(ks, k)
	}
	sort.Strings(ks)
	fmt.Fprintf(h, "S|%s|%d|", st.Name, len(ks))
	for _, k := range ks {
		v := st.objs[k]
		if st.Canon != nil {
			v = st.Canon(k, v)
		}
		s := sha256.Sum256(v)
		fmt.Fprintf(h, "%s=", k)
		h.Write(s[:16])
	}
}

// Handle is one instance's access path to a Store. Crashing an instance fences
// its handles: every later call fails without effect and without parking.
type Handle struct {
	St     *Store
	Name   string
	fenced bool
	mu     sync.Mutex
	// NoFaults disables fault choices on this handle (faults are still possible
	// through fencing).
	NoFaults bool
	// FaultFilter, if set, restricts fault choices to operations it returns true for.
	FaultFilter func(op, key string) bool
	// Quiet handles never park (used for fault-free restarts and base building).
	Quiet bool
	casMismatch bool
}

// SawCASMismatch reports whether a Replace through this handle was refused
// because the stored value differed from the expected one.
func (h *Handle) SawCASMismatch() bool {
	h.mu.Lock()
	defer h.mu.Unlock()
	return h.casMismatch
}

func (st *Store) Handle(name string) *Handle { return &Handle{St: st, Name: name} }

func (h *Handle) Fenced() bool {
	h.mu.Lock()
	defer h.mu.Unlock()
	return h.fenced
}

func (h *Handle) Fence() {
	h.mu.Lock()
	h.fenced = true
	h.mu.Unlock()
}

var ErrFenced = errors.New("verifmc: instance crashed (fenced)")
var ErrInjected = errors.New("verifmc: injected storage failure")
var ErrNotFound = errors.New("verifmc: object not found")
var ErrImmutableMismatch = errors.New("verifmc: immutable object exists with different content")
var ErrCASMismatch = errors.New("verifmc: compare-and-swap mismatch")
var ErrExists = errors.New("verifmc: already exists")

const (
	outOK = iota
	outErrNotApplied
	outErrApplied
)

// begin parks at the scheduling point of an operation and picks its outcome.
func (h *Handle) begin(op, key string, mutating bool) (outcome int, err error) {
	if h.Fenced() {
		return 0, ErrFenced
	}
	s := Cur
	if s == nil || h.Quiet {
		return outOK, nil
	}
	label := op + " " + h.St.Name + ":" + key
	s.PointCond(label, nil, h)
	if h.Fenced() || s.Draining() {
		return 0, ErrFenced
	}
	if h.NoFaults || (h.FaultFilter != nil && !h.FaultFilter(op, key)) {
		return outOK, nil
	}
	if mutating {
		outcome = s.Choose("outcome "+label, []string{"ok", "error-not-applied", "error-applied"}, nil)
	} else {
		outcome = s.Choose("outcome "+label, []string{"ok", "error"}, nil)
	}
	return outcome, nil
}

func (h *Handle) emit(ev Event) {
	st := h.St
	ev.Thread = Cur.Self()
	st.mu.Lock()
	ev.Seq = len(st.Events)
	ev.Handle = h.Name
	if ev.Op != "fetch" {
		st.Events = append(st.Events, ev)
	}
	cb := st.OnEffect
	st.mu.Unlock()
	Cur.Observe(fmt.Sprintf("%s %s applied=%v err=%s", ev.Op, ev.Key, ev.Applied, ev.Err))
	if cb != nil {
		cb(ev)
	}
}

// Upload stores data under key.
func (h *Handle) Upload(key string, data []byte, immutable bool) error {
	out, err := h.begin("upload", key, true)
	if err != nil {
		return err
	}
	data = bytes.Clone(data)
	ev := Event{Op: "upload", Key: key, Data: data, Immut: immutable}
	st := h.St
	st.mu.Lock()
	old, had := st.objs[key]
	ev.Old, ev.HadOld = old, had
	if out != outErrNotApplied {
		if st.LocalLike && immutable && had {
			if !bytes.Equal(old, data) {
				ev.Err = ErrImmutableMismatch.Error()
				st.mu.Unlock()
				h.emit(ev)
				return ErrImmutableMismatch
			}
		} else {
			st.objs[key] = data
			if immutable {
				st.immut[key] = true
			}
		}
		ev.Applied = true
	}
	st.mu.Unlock()
	if out != outOK {
		ev.Err = ErrInjected.Error()
	}
	h.emit(ev)
	if out != outOK {
		return ErrInjected
	}
	return nil
}

func (h *Handle) Fetch(key string) ([]byte, error) {
	out, err := h.begin("fetch", key, false)
	if err != nil {
		return nil, err
	}
	if out != outOK {
		h.emit(Event{Op: "fetch", Key: key, Err: ErrInjected.Error()})
		return nil, ErrInjected
	}
	v, ok := h.St.Get(key)
	if !ok {
		h.emit(Event{Op: "fetch", Key: key, Err: ErrNotFound.Error()})
		return nil, ErrNotFound
	}
	Cur.Observe(fmt.Sprintf("fetched %x", sha256.Sum256(v)))
	h.emit(Event{Op: "fetch", Key: key, Applied: true})
	return bytes.Clone(v), nil
}

func (h *Handle) Discard(key string) error {
	out, err := h.begin("discard", key, true)
	if err != nil {
		return err
	}
	ev := Event{Op: "discard", Key: key}
	st := h.St
	st.mu.Lock()
	old, had := st.objs[key]
	ev.Old, ev.HadOld = old, had
	if out != outErrNotApplied {
		delete(st.objs, key)
		delete(st.immut, key)
		ev.Applied = true
	}
	st.mu.Unlock()
	if out != outOK {
		ev.Err = ErrInjected.Error()
	}
	h.emit(ev)
	if out != outOK {
		return ErrInjected
	}
	return nil
}

// Create stores val under key only if absent (lock store).
func (h *Handle) Create(key string, val []byte) error {
	out, err := h.begin("create", key, true)
	if err != nil {
		return err
	}
	val = bytes.Clone(val)
	ev := Event{Op: "create", Key: key, Data: val}
	st := h.St
	st.mu.Lock()
	old, had := st.objs[key]
	ev.Old, ev.HadOld = old, had
	if had {
		ev.Err = ErrExists.Error()
		st.mu.Unlock()
		h.emit(ev)
		return ErrExists
	}
	if out != outErrNotApplied {
		st.objs[key] = val
		ev.Applied = true
	}
	st.mu.Unlock()
	if out != outOK {
		ev.Err = ErrInjected.Error()
	}
	h.emit(ev)
	if out != outOK {
		return ErrInjected
	}
	return nil
}

// Replace is compare-and-swap on byte equality with old (lock store).
func (h *Handle) Replace(key string, old, val []byte) error {
	out, err := h.begin("replace", key, true)
	if err != nil {
		return err
	}
	val = bytes.Clone(val)
	ev := Event{Op: "replace", Key: key, Data: val}
	st := h.St
	st.mu.Lock()
	cur, had := st.objs[key]
	ev.Old, ev.HadOld = cur, had
	if !had || !bytes.Equal(cur, old) {
		ev.Err = ErrCASMismatch.Error()
		st.mu.Unlock()
		h.mu.Lock()
		h.casMismatch = true
		h.mu.Unlock()
		h.emit(ev)
		return ErrCASMismatch
	}
	if out != outErrNotApplied {
		st.objs[key] = val
		ev.Applied = true
	}
	st.mu.Unlock()
	if out != outOK {
		ev.Err = ErrInjected.Error()
	}
	h.emit(ev)
	if out != outOK {
		return ErrInjected
	}
	return nil
}
