// Package vsqlitex stands in for crawshaw.io/sqlite/sqlitex in instrumented
// files. The start of a write transaction (Save) is a scheduling point, so that
// other threads can be interleaved between whatever precedes the deduplication
// cache write and the write itself. Statements inside a transaction are NOT
// scheduling points: a thread parked while holding SQLite locks would make other
// connections block inside C code, which testing/synctest cannot see through.
package vsqlitex

import (
	"crawshaw.io/sqlite"
	real "crawshaw.io/sqlite/sqlitex"
	"filippo.io/sunlight/internal/verifmc"
)

func Exec(conn *sqlite.Conn, query string, resultFn func(stmt *sqlite.Stmt) error, args ...interface{}) error {
	return real.Exec(conn, query, resultFn, args...)
}

func ExecTransient(conn *sqlite.Conn, query string, resultFn func(stmt *sqlite.Stmt) error, args ...interface{}) error {
	return real.ExecTransient(conn, query, resultFn, args...)
}

func ExecScript(conn *sqlite.Conn, queries string) error { return real.ExecScript(conn, queries) }

func Save(conn *sqlite.Conn) (releaseFn func(*error)) {
	verifmc.Cur.Point("sql write transaction")
	return real.Save(conn)
}
