// Package vsqlitex stands in for crawshaw.io/sqlite/sqlitex in instrumented
// files. The start of a write transaction (Save) is a scheduling point, so that
// other threads can be interleaved between whatever precedes the deduplication
// cache write and the write itself. Statements inside a transaction are NOT
// scheduling points: a thread parked while holding SQLite locks would make other
// connections block inside C code, which testing/synctest cannot see through.
package vsqlitex

import (
	"errors"
	"strings"

	"crawshaw.io/sqlite"
	real "crawshaw.io/sqlite/sqlitex"
	"filippo.io/sunlight/internal/verifmc"
)

// ErrInjected is returned by a SELECT that the explorer chose to fail.
var ErrInjected = errors.New("verifmc: injected SQLite failure")

// Exec runs the statement. Where the scheduler asks for it (Sched.SQLReadFaults)
// a SELECT may fail instead: an environment choice, not a scheduling point (the
// caller may hold locks).
func Exec(conn *sqlite.Conn, query string, resultFn func(stmt *sqlite.Stmt) error, args ...interface{}) error {
	if s := verifmc.Cur; s != nil && s.SQLReadFaults && !s.Draining() && strings.HasPrefix(strings.TrimSpace(query), "SELECT") {
		label := query
		if i := strings.Index(label, " WHERE"); i > 0 {
			label = label[:i]
		}
		if s.Choose("outcome sql "+label, []string{"ok", "error"}, nil) == 1 {
			return ErrInjected
		}
	}
	return real.Exec(conn, query, resultFn, args...)
}

func ExecTransient(conn *sqlite.Conn, query string, resultFn func(stmt *sqlite.Stmt) error, args ...interface{}) error {
	return real.ExecTransient(conn, query, resultFn, args...)
}

func ExecScript(conn *sqlite.Conn, queries string) error { return real.ExecScript(conn, queries) }

func Save(conn *sqlite.Conn) (releaseFn func(*error)) {
	verifmc.Cur.Point("sql write transaction")
	return real.Save(conn)
}
