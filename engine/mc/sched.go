// Package verifmc is the model-checking engine used by the /verif harnesses.
//
// It is injected into the filippo.io/sunlight module as the virtual package
// filippo.io/sunlight/internal/verifmc by a build overlay. It depends only on
// the standard library.
//
// sched.go: a controlled, cooperative scheduler that runs inside a
// testing/synctest bubble. Threads stop at Points (storage operations, lock
// operations, mutex acquisitions, explicit harness steps); the scheduler
// goroutine waits for quiescence with synctest.Wait and then picks which parked
// thread runs next, or an environment move (crash, clock tick). Every choice
// goes through Choose so that a stateless DFS can replay and branch.
package verifmc

import (
	"bytes"
	"crypto/sha256"
	"encoding/binary"
	"fmt"
	"hash"
	"runtime"
	"runtime/debug"
	"sort"
	"strconv"
	"sync"
	"testing/synctest"
)

// Cur is the scheduler of the execution in progress, nil outside executions.
// There is only ever one execution at a time per process.
var Cur *Sched

type status int

const (
	stRunning status = iota
	stParked
	stFinished
)

// Fencer is implemented by handles that can be fenced by a crash: a thread
// parked on a fenced owner is released without a scheduling decision.
type Fencer interface{ Fenced() bool }

type Thread struct {
	Name string
	// Prio orders the canonical enabled list (lower first, then by name): the
	// default schedule runs lower-priority-number threads first.
	Prio   int
	goid   uint64
	st     status
	label  string
	cond   func() bool
	owner  Fencer
	resume chan struct{}
	hist   [16]byte
	anon   bool
	// atomicSync: see SyncPoint.
	atomicSync bool
	// yielded: parked at a Yield (see there).
	yielded bool
}

// Choice is one recorded choice point of an execution.
type Choice struct {
	Label  string   `json:"label"`
	Opts   []string `json:"opts"`
	Cost   []int    `json:"-"`
	Picked int      `json:"picked"`
	Key    [16]byte `json:"-"`
	HasKey bool     `json:"-"`
	// Observed choices are made by the code under test (see ChooseObserved).
	Observed bool `json:"observed,omitempty"`
}

// Move is an environment transition offered by the harness at a scheduling step.
type Move struct {
	Label string
	Cost  int
	// IdleOnly moves are offered only when no thread is enabled; the others only
	// when at least one thread is.
	IdleOnly bool
	Do       func()
}

type EngineError struct{ Msg string }

func (e EngineError) Error() string { return "engine error: " + e.Msg }

type Sched struct {
	mu       sync.Mutex
	threads  []*Thread
	byGoid   map[uint64]*Thread
	names    map[string]int
	prefix   []int
	Points   []Choice
	Used     int // deviation cost used so far
	running  *Thread
	draining bool

	// Trace is the observation trace (labels of every step and outcome), used for
	// determinism checks and samples.
	Trace []string

	// Moves returns the environment moves available at this step.
	Moves func() []Move
	// KeyFn lets the harness fold its own state into the state key.
	KeyFn func(h hash.Hash)
	// Stores whose content is part of the state key.
	Stores []*Store
	// AnonInOrder: see Run (reduces the interleavings of spawned goroutines to
	// their canonical order; used when several named threads already compete).
	AnonInOrder bool
	// MaxSteps bounds the number of scheduler steps (horizon).
	MaxSteps int
	Steps    int
	// SyncChain is a hash chain per shimmed mutex of the threads that acquired it.
	syncChains map[string][16]byte
	muNames    map[any]string
	muCount    map[string]int

	// Deadlocked lists threads that were neither finished nor parked when the
	// scheduler ran out of moves.
	Stuck []string
	// HorizonHit is set when MaxSteps was reached.
	HorizonHit bool
	// Mismatch: an observed choice differed from the replayed one.
	Mismatch bool
	noKeys   bool
	panicErr   any
	// SQLReadFaults: SELECT statements issued through the sqlitex shim may fail
	// (an environment choice costing one deviation).
	SQLReadFaults bool
	panicStack string
	engineErr  string
}

// EngineErr returns a scheduler-level error (replay divergence), "" if none.
// The harness must check it after Run and raise it as an EngineError.
func (s *Sched) EngineErr() string {
	s.mu.Lock()
	defer s.mu.Unlock()
	return s.engineErr
}

// PanicErr returns the first panic value recovered from a model thread.
func (s *Sched) PanicErr() any {
	s.mu.Lock()
	defer s.mu.Unlock()
	return s.panicErr
}

// PanicStack returns the stack of the first recovered panic.
func (s *Sched) PanicStack() string {
	s.mu.Lock()
	defer s.mu.Unlock()
	return s.panicStack
}

func NewSched(prefix []int) *Sched {
	return &Sched{
		byGoid:     map[uint64]*Thread{},
		names:      map[string]int{},
		prefix:     prefix,
		MaxSteps:   5000,
		syncChains: map[string][16]byte{},
		muNames:    map[any]string{},
		muCount:    map[string]int{},
	}
}

func goid() uint64 {
	var buf [64]byte
	n := runtime.Stack(buf[:], false)
	// "goroutine 123 ["
	b := buf[:n]
	b = b[len("goroutine "):]
	i := bytes.IndexByte(b, ' ')
	id, _ := strconv.ParseUint(string(b[:i]), 10, 64)
	return id
}

// Go starts a named model thread. Must be called from inside the bubble.
func (s *Sched) Go(name string, fn func()) { s.GoPrio(name, 5, fn) }

// GoPrio is Go with an explicit position in the canonical order.
func (s *Sched) GoPrio(name string, prio int, fn func()) {
	th := &Thread{Name: s.uniqueName(name), Prio: prio, resume: make(chan struct{}, 1)}
	s.mu.Lock()
	s.threads = append(s.threads, th)
	s.mu.Unlock()
	started := make(chan struct{})
	go func() {
		th.goid = goid()
		s.mu.Lock()
		s.byGoid[th.goid] = th
		s.mu.Unlock()
		close(started)
		defer func() {
			r := recover()
			s.mu.Lock()
			th.st = stFinished
			if r != nil && s.panicErr == nil {
				s.panicErr = r
				s.panicStack = string(debug.Stack())
			}
			s.mu.Unlock()
		}()
		// Every thread starts parked, so that its start is a scheduling decision.
		s.PointCond("start", nil, nil)
		fn()
	}()
	<-started
}

func (s *Sched) uniqueName(name string) string {
	s.mu.Lock()
	defer s.mu.Unlock()
	k := s.names[name]
	s.names[name] = k + 1
	if k == 0 {
		return name
	}
	return fmt.Sprintf("%s#%d", name, k)
}

func (s *Sched) self(label string) *Thread {
	id := goid()
	s.mu.Lock()
	th := s.byGoid[id]
	s.mu.Unlock()
	if th != nil {
		return th
	}
	th = &Thread{Name: s.uniqueName("anon:" + label), Prio: 5, goid: id, resume: make(chan struct{}, 1), anon: true}
	s.mu.Lock()
	s.byGoid[id] = th
	s.threads = append(s.threads, th)
	s.mu.Unlock()
	return th
}

// Self returns the name of the calling thread ("" if unknown or no scheduler).
func (s *Sched) Self() string {
	if s == nil {
		return ""
	}
	id := goid()
	s.mu.Lock()
	defer s.mu.Unlock()
	if th := s.byGoid[id]; th != nil {
		return th.Name
	}
	return ""
}

// SyncPoint is the scheduling point of a shimmed mutex acquisition. A thread
// that called AtomicSync(true) does not park at an acquirable mutex: its own
// harness-level Point and the following critical section then form one atomic
// step (needed when the harness must observe state atomically with an operation
// that takes the lock itself).
func (s *Sched) SyncPoint(label string, cond func() bool) {
	if s == nil {
		return
	}
	id := goid()
	s.mu.Lock()
	th := s.byGoid[id]
	s.mu.Unlock()
	if th != nil && th.atomicSync && (cond == nil || cond()) {
		return
	}
	s.PointCond(label, cond, nil)
}

// AtomicSync switches the calling thread's mutex acquisitions between being
// scheduling points (default) and not.
func (s *Sched) AtomicSync(on bool) {
	if s == nil {
		return
	}
	id := goid()
	s.mu.Lock()
	if th := s.byGoid[id]; th != nil {
		th.atomicSync = on
	}
	s.mu.Unlock()
}

// Point parks the calling thread until the scheduler picks it.
func (s *Sched) Point(label string) { s.PointCond(label, nil, nil) }

// Yield is a Point at which the calling thread gives up its claim to be
// continued by default: the next default choice is the first enabled thread in
// canonical (priority, name) order, and picking any thread costs nothing.
func (s *Sched) Yield(label string) {
	if s == nil {
		return
	}
	th := s.self(label)
	s.mu.Lock()
	th.yielded = true
	s.mu.Unlock()
	s.PointCond(label, nil, nil)
}

// PointCond parks the calling thread; it is enabled only while cond() is true
// (cond == nil means always). If owner is fenced the thread is not parked (or
// is released without a decision).
func (s *Sched) PointCond(label string, cond func() bool, owner Fencer) {
	if s == nil {
		return
	}
	if owner != nil && owner.Fenced() {
		return
	}
	th := s.self(label)
	s.mu.Lock()
	if s.draining {
		s.mu.Unlock()
		return
	}
	th.st = stParked
	th.label = label
	th.cond = cond
	th.owner = owner
	s.mu.Unlock()
	<-th.resume
	th.observe("P:" + label)
}

func (th *Thread) observe(x string) {
	h := sha256.New()
	h.Write(th.hist[:])
	h.Write([]byte(x))
	copy(th.hist[:], h.Sum(nil))
}

// Observe folds something the calling thread has learned (an operation result)
// into its history hash, which is part of the state key.
func (s *Sched) Observe(x string) {
	if s == nil {
		return
	}
	id := goid()
	s.mu.Lock()
	th := s.byGoid[id]
	s.mu.Unlock()
	if th != nil {
		th.observe(x)
	}
}

// Choose records an environment choice with n options (0 is the default).
// cost[i] is the deviation cost of option i (cost may be nil: option 0 free,
// others 1). Options whose cost exceeds the budget are still offered on replay
// (the explorer filters), so Choose never fails because of the budget.
func (s *Sched) Choose(label string, opts []string, cost []int) int {
	if s == nil {
		return 0
	}
	s.mu.Lock()
	defer s.mu.Unlock()
	return s.chooseLocked(label, opts, cost, false)
}

func (s *Sched) chooseLocked(label string, opts []string, cost []int, withKey bool) int {
	n := len(opts)
	if cost == nil {
		cost = make([]int, n)
		for i := 1; i < n; i++ {
			cost[i] = 1
		}
	}
	i := len(s.Points)
	pick := 0
	if i < len(s.prefix) && !s.Mismatch && s.engineErr == "" {
		pick = s.prefix[i]
		if pick < 0 || pick >= n {
			// Never panic while holding s.mu: record, fall back to the default and let
			// the scheduler loop end; the harness turns it into an EngineError.
			s.engineErr = fmt.Sprintf("replay divergence at point %d (%s): recorded choice %d but only %d options %v", i, label, pick, n, opts)
			pick = 0
		}
	}
	c := Choice{Label: label, Opts: opts, Cost: cost, Picked: pick}
	if withKey && !s.noKeys {
		c.Key = s.stateKey()
		c.HasKey = true
	}
	s.Points = append(s.Points, c)
	s.Used += cost[pick]
	s.Trace = append(s.Trace, label+" -> "+opts[pick])
	return pick
}

// ChooseObserved records a choice that the code under test made itself in a way
// the harness can only observe (e.g. Go map iteration order): observed is the
// option that happened. Beyond the replayed prefix the observation is recorded
// as the pick; inside the prefix a different observation makes the execution a
// Mismatch (the explorer re-runs it until the recorded alternative shows up).
func (s *Sched) ChooseObserved(label string, opts []string, observed int) bool {
	if s == nil {
		return true
	}
	s.mu.Lock()
	defer s.mu.Unlock()
	i := len(s.Points)
	cost := make([]int, len(opts))
	if i < len(s.prefix) && s.prefix[i] != observed {
		s.Mismatch = true
		s.Points = append(s.Points, Choice{Label: label, Opts: opts, Cost: cost, Picked: observed, Observed: true})
		return false
	}
	s.Points = append(s.Points, Choice{Label: label, Opts: opts, Cost: cost, Picked: observed, Observed: true})
	s.Trace = append(s.Trace, label+" (observed) -> "+opts[observed])
	return true
}

// Note appends to the observation trace without being a choice.
func (s *Sched) Note(x string) {
	if s == nil {
		return
	}
	s.mu.Lock()
	s.Trace = append(s.Trace, x)
	s.mu.Unlock()
}

func (s *Sched) stateKey() [16]byte {
	h := sha256.New()
	for _, st := range s.Stores {
		st.digest(h)
	}
	ths := append([]*Thread(nil), s.threads...)
	sort.Slice(ths, func(i, j int) bool { return ths[i].Name < ths[j].Name })
	for _, th := range ths {
		if th.anon && th.st != stParked {
			continue // gone
		}
		fmt.Fprintf(h, "T|%s|%d|%s|", th.Name, th.st, th.label)
		h.Write(th.hist[:])
	}
	names := make([]string, 0, len(s.syncChains))
	for n := range s.syncChains {
		names = append(names, n)
	}
	sort.Strings(names)
	for _, n := range names {
		c := s.syncChains[n]
		fmt.Fprintf(h, "M|%s|", n)
		h.Write(c[:])
	}
	// The identity of the last-run thread only matters while it can still be
	// chosen (switching away from it is what costs a preemption).
	if s.running != nil && s.running.st == stParked && !s.running.yielded {
		fmt.Fprintf(h, "R|%s|", s.running.Name)
	}
	if s.KeyFn != nil {
		s.KeyFn(h)
	}
	var k [16]byte
	copy(k[:], h.Sum(nil))
	return k
}

// NoteAcquire records that the calling thread acquired shimmed mutex m.
func (s *Sched) NoteAcquire(m any, kind string) {
	if s == nil {
		return
	}
	id := goid()
	s.mu.Lock()
	defer s.mu.Unlock()
	tn := "?"
	if th := s.byGoid[id]; th != nil {
		tn = th.Name
	}
	name, ok := s.muNames[m]
	if !ok {
		k := s.muCount[tn]
		s.muCount[tn] = k + 1
		name = fmt.Sprintf("%s/%d", tn, k)
		s.muNames[m] = name
	}
	c := s.syncChains[name]
	h := sha256.New()
	h.Write(c[:])
	h.Write([]byte(tn + "|" + kind))
	copy(c[:], h.Sum(nil))
	s.syncChains[name] = c
}

// Run is the scheduler loop. It must be called from the bubble's root goroutine
// after the threads were started with Go. It returns when no move is left or
// the horizon is reached, after draining all threads.
func (s *Sched) Run() {
	for {
		synctest.Wait()
		s.mu.Lock()
		// Release threads parked on fenced owners (crashed instance): no decision.
		released := false
		for _, th := range s.threads {
			if th.st == stParked && th.owner != nil && th.owner.Fenced() {
				th.st = stRunning
				th.resume <- struct{}{}
				released = true
			}
		}
		if released {
			s.mu.Unlock()
			continue
		}
		if s.Steps >= s.MaxSteps {
			s.HorizonHit = true
			s.mu.Unlock()
			break
		}
		if s.engineErr != "" || s.Mismatch {
			s.mu.Unlock()
			break
		}
		var enabled []*Thread
		for _, th := range s.threads {
			if th.st == stParked && (th.cond == nil || th.cond()) {
				enabled = append(enabled, th)
			}
		}
		sort.Slice(enabled, func(i, j int) bool {
			if enabled[i].Prio != enabled[j].Prio {
				return enabled[i].Prio < enabled[j].Prio
			}
			return enabled[i].Name < enabled[j].Name
		})
		if s.AnonInOrder {
			// Only the first anonymous thread (canonical order) may run: parallel
			// uploads are applied in one fixed order (their prefixes, not all
			// subsets, are the intermediate states).
			kept := enabled[:0]
			seenAnon := false
			for _, th := range enabled {
				if th.anon {
					if seenAnon {
						continue
					}
					seenAnon = true
				}
				kept = append(kept, th)
			}
			enabled = kept
		}
		runningEnabled := false
		for i, th := range enabled {
			if th == s.running && !th.yielded {
				runningEnabled = true
				copy(enabled[1:i+1], enabled[:i])
				enabled[0] = th
				break
			}
		}
		var moves []Move
		if s.Moves != nil {
			s.mu.Unlock()
			all := s.Moves()
			s.mu.Lock()
			for _, m := range all {
				if m.IdleOnly != (len(enabled) == 0) {
					continue
				}
				moves = append(moves, m)
			}
		}
		if len(enabled)+len(moves) == 0 {
			s.mu.Unlock()
			break
		}
		opts := make([]string, 0, len(enabled)+len(moves))
		cost := make([]int, 0, len(enabled)+len(moves))
		for i, th := range enabled {
			opts = append(opts, th.Name+": "+th.label)
			c := 0
			if runningEnabled && i > 0 {
				c = 1
			}
			cost = append(cost, c)
		}
		for _, m := range moves {
			opts = append(opts, "env: "+m.Label)
			cost = append(cost, m.Cost)
		}
		pick := s.chooseLocked("sched", opts, cost, true)
		s.Steps++
		if pick < len(enabled) {
			th := enabled[pick]
			th.st = stRunning
			th.yielded = false
			s.running = th
			th.resume <- struct{}{}
			s.mu.Unlock()
		} else {
			m := moves[pick-len(enabled)]
			s.mu.Unlock()
			m.Do()
		}
	}
	// Record who is stuck before draining.
	s.mu.Lock()
	for _, th := range s.threads {
		if !th.anon && th.st == stRunning {
			s.Stuck = append(s.Stuck, th.Name)
		}
	}
	sort.Strings(s.Stuck)
	s.mu.Unlock()
}

// Drain releases every parked thread and makes later Points no-ops. The harness
// must make sure that unhooked waits end too (cancel contexts) before the
// bubble can exit.
func (s *Sched) Drain() {
	s.mu.Lock()
	s.draining = true
	for _, th := range s.threads {
		if th.st == stParked {
			th.st = stRunning
			th.resume <- struct{}{}
		}
	}
	s.mu.Unlock()
}

// Draining reports whether the execution is being torn down.
func (s *Sched) Draining() bool {
	if s == nil {
		return false
	}
	s.mu.Lock()
	defer s.mu.Unlock()
	return s.draining
}

// ParkedLabels returns "thread: label" for every parked thread (diagnostics).
func (s *Sched) ParkedLabels() []string {
	s.mu.Lock()
	defer s.mu.Unlock()
	var out []string
	for _, th := range s.threads {
		if th.st == stParked {
			out = append(out, th.Name+": "+th.label)
		}
	}
	return out
}

// Picks returns the list of choices made.
func (s *Sched) Picks() []int {
	out := make([]int, len(s.Points))
	for i, p := range s.Points {
		out[i] = p.Picked
	}
	return out
}

func u64(x uint64) []byte {
	var b [8]byte
	binary.BigEndian.PutUint64(b[:], x)
	return b[:]
}
