package verifmc

// Reference codec for property C10 (Static CT TileLeaf / RFC 6962
// MerkleTreeLeaf / CTExtensions), independent of the code under test: plain
// byte slicing, no cryptobyte, no sunlight, no tlog. It extends RefEntry (ref.go)
// with archival leaves (empty CtExtensions), raw extension vectors for
// near-miss probes, a zero-copy "pieces" form for 16 MiB entries and a strict
// decoder with a total verdict.

import (
	"bytes"
	"errors"
)

// C10Entry is the reference model of one log entry.
type C10Entry struct {
	Timestamp     int64
	Index         int64 // ignored when Archival
	Archival      bool  // RFC 6962 archival leaf: CtExtensions is empty
	IsPrecert     bool
	IssuerKeyHash [32]byte
	Cert          []byte // certificate or defanged TBS
	PreCert       []byte
	Fingerprints  [][32]byte
}

// C10IndexExt is the canonical CTExtensions value carrying one leaf_index
// extension: type 0, length 5, big-endian uint40.
func C10IndexExt(idx int64) []byte {
	return []byte{0, 0, 5, byte(idx >> 32), byte(idx >> 24), byte(idx >> 16), byte(idx >> 8), byte(idx)}
}

// Ext returns the CTExtensions content of the entry.
func (e *C10Entry) Ext() []byte {
	if e.Archival {
		return nil
	}
	return C10IndexExt(e.Index)
}

func c10be(n uint64, width int) []byte {
	b := make([]byte, width)
	for i := width - 1; i >= 0; i-- {
		b[i] = byte(n)
		n >>= 8
	}
	return b
}

// timestampedPieces: the TimestampedEntry with ext as raw CtExtensions content.
func (e *C10Entry) timestampedPieces(ext []byte) [][]byte {
	p := [][]byte{c10be(uint64(e.Timestamp), 8)}
	if e.IsPrecert {
		p = append(p, []byte{0, 1}, e.IssuerKeyHash[:])
	} else {
		p = append(p, []byte{0, 0})
	}
	p = append(p, c10be(uint64(len(e.Cert)), 3), e.Cert)
	p = append(p, c10be(uint64(len(ext)), 2), ext)
	return p
}

// MerkleTreeLeafPieces is the RFC 6962 §3.4 MerkleTreeLeaf (v1, timestamped_entry)
// as a list of consecutive byte pieces.
func (e *C10Entry) MerkleTreeLeafPieces() [][]byte {
	return append([][]byte{{0, 0}}, e.timestampedPieces(e.Ext())...)
}

// TileLeafPiecesExt is the c2sp.org/static-ct-api TileLeaf with ext as the raw
// content of the CtExtensions vector (canonical or not).
func (e *C10Entry) TileLeafPiecesExt(ext []byte) [][]byte {
	p := e.timestampedPieces(ext)
	if e.IsPrecert {
		p = append(p, c10be(uint64(len(e.PreCert)), 3), e.PreCert)
	}
	p = append(p, c10be(uint64(32*len(e.Fingerprints)), 2))
	for i := range e.Fingerprints {
		p = append(p, e.Fingerprints[i][:])
	}
	return p
}

func (e *C10Entry) TileLeafPieces() [][]byte { return e.TileLeafPiecesExt(e.Ext()) }

// C10Concat joins pieces.
func C10Concat(pieces [][]byte) []byte {
	n := 0
	for _, p := range pieces {
		n += len(p)
	}
	out := make([]byte, 0, n)
	for _, p := range pieces {
		out = append(out, p...)
	}
	return out
}

// C10Match reports whether b is exactly the concatenation of pieces (without
// materialising it); off is the first differing offset or -1.
func C10Match(b []byte, pieces [][]byte) (ok bool, off int) {
	pos := 0
	for _, p := range pieces {
		if len(b)-pos < len(p) {
			return false, len(b)
		}
		if !bytes.Equal(b[pos:pos+len(p)], p) {
			for i := range p {
				if b[pos+i] != p[i] {
					return false, pos + i
				}
			}
		}
		pos += len(p)
	}
	if pos != len(b) {
		return false, pos
	}
	return true, -1
}

func (e *C10Entry) TileLeaf() []byte       { return C10Concat(e.TileLeafPieces()) }
func (e *C10Entry) MerkleTreeLeaf() []byte { return C10Concat(e.MerkleTreeLeafPieces()) }

// C10Decoded is the result of the strict reference decoder.
type C10Decoded struct {
	E C10Entry
	N int // bytes consumed
	// TSHigh: the timestamp field has its top bit set. TimestampedEntry.timestamp
	// is a uint64 while LogEntry.Timestamp is an int64; whether such a leaf is to
	// be refused is not stated by the property, so callers do not judge
	// acceptance on it.
	TSHigh bool
}

var errC10 = errors.New("c10ref: not a canonical TileLeaf")

type c10rd struct {
	b   []byte
	pos int
}

func (r *c10rd) take(n int) ([]byte, bool) {
	if n < 0 || len(r.b)-r.pos < n {
		return nil, false
	}
	x := r.b[r.pos : r.pos+n]
	r.pos += n
	return x, true
}

func (r *c10rd) num(width int) (int, bool) {
	x, ok := r.take(width)
	if !ok {
		return 0, false
	}
	v := 0
	for _, c := range x {
		v = v<<8 | int(c)
	}
	return v, true
}

func (r *c10rd) vec(width int) ([]byte, bool) {
	n, ok := r.num(width)
	if !ok {
		return nil, false
	}
	return r.take(n)
}

// C10DecodeTileLeaf strictly decodes one TileLeaf from the front of b. The
// CtExtensions vector must be empty (archival) or exactly the canonical
// 8-byte leaf_index extension. Slices alias b.
func C10DecodeTileLeaf(b []byte) (d C10Decoded, err error) {
	r := &c10rd{b: b}
	ts, ok := r.take(8)
	if !ok {
		return d, errC10
	}
	var t uint64
	for _, c := range ts {
		t = t<<8 | uint64(c)
	}
	d.TSHigh = t>>63 != 0
	d.E.Timestamp = int64(t)
	typ, ok := r.num(2)
	if !ok {
		return d, errC10
	}
	switch typ {
	case 0:
	case 1:
		d.E.IsPrecert = true
		ikh, ok := r.take(32)
		if !ok {
			return d, errC10
		}
		copy(d.E.IssuerKeyHash[:], ikh)
	default:
		return d, errC10
	}
	if d.E.Cert, ok = r.vec(3); !ok {
		return d, errC10
	}
	ext, ok := r.vec(2)
	if !ok {
		return d, errC10
	}
	switch {
	case len(ext) == 0:
		d.E.Archival = true
	case len(ext) == 8 && ext[0] == 0 && ext[1] == 0 && ext[2] == 5:
		for _, c := range ext[3:] {
			d.E.Index = d.E.Index<<8 | int64(c)
		}
	default:
		return d, errC10
	}
	if d.E.IsPrecert {
		if d.E.PreCert, ok = r.vec(3); !ok {
			return d, errC10
		}
	}
	fp, ok := r.vec(2)
	if !ok || len(fp)%32 != 0 {
		return d, errC10
	}
	if len(fp) > 0 {
		d.E.Fingerprints = make([][32]byte, len(fp)/32)
		for i := range d.E.Fingerprints {
			copy(d.E.Fingerprints[i][:], fp[32*i:])
		}
	}
	d.N = r.pos
	return d, nil
}

// C10FirstLeafIndex walks a CTExtensions value extension by extension and
// gives the verdict a parser that ignores unknown extensions must reach:
// ok=true with the index iff only well-formed unknown extensions precede the
// first leaf_index (type 0) extension and that extension's data is exactly 5
// bytes. Everything after the first leaf_index extension is not looked at.
// unknownBefore is the number of unknown extensions skipped, end the offset
// just past the first leaf_index extension (when ok).
func C10FirstLeafIndex(b []byte) (idx int64, ok bool, unknownBefore int, end int) {
	pos := 0
	for {
		if len(b)-pos < 3 {
			return 0, false, unknownBefore, 0 // nothing left, or a truncated header
		}
		typ := b[pos]
		n := int(b[pos+1])<<8 | int(b[pos+2])
		pos += 3
		if len(b)-pos < n {
			return 0, false, unknownBefore, 0
		}
		data := b[pos : pos+n]
		pos += n
		if typ != 0 {
			unknownBefore++
			continue
		}
		if n != 5 {
			return 0, false, unknownBefore, 0
		}
		for _, c := range data {
			idx = idx<<8 | int64(c)
		}
		return idx, true, unknownBefore, pos
	}
}
