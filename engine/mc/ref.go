package verifmc

// Reference implementations used as oracles. Nothing here uses code under test
// (no tlog, no sunlight, no torchwood): RFC 6962 Merkle hashing by direct
// recursion, c2sp.org/tlog-tiles tile geometry, and the Static CT TileLeaf /
// MerkleTreeLeaf TLS-presentation encodings with plain byte slicing.

import (
	"bytes"
	"crypto/ecdsa"
	"crypto/sha256"
	"encoding/base64"
	"encoding/binary"
	"errors"
	"fmt"
	"strings"
)

type Hash = [32]byte

func LeafHash(leaf []byte) Hash {
	h := sha256.New()
	h.Write([]byte{0})
	h.Write(leaf)
	var out Hash
	h.Sum(out[:0])
	return out
}

func NodeHash(l, r Hash) Hash {
	h := sha256.New()
	h.Write([]byte{1})
	h.Write(l[:])
	h.Write(r[:])
	var out Hash
	h.Sum(out[:0])
	return out
}

// MTH is the RFC 6962 §2.1 Merkle Tree Hash over already-hashed leaves.
func MTH(leaves []Hash) Hash {
	n := len(leaves)
	switch n {
	case 0:
		return sha256.Sum256(nil)
	case 1:
		return leaves[0]
	}
	k := 1
	for k*2 < n {
		k *= 2
	}
	return NodeHash(MTH(leaves[:k]), MTH(leaves[k:]))
}

// InclusionProof is RFC 6962 §2.1.1 PATH(m, D[n]).
func InclusionProof(m int, leaves []Hash) []Hash {
	n := len(leaves)
	if n <= 1 {
		return nil
	}
	k := 1
	for k*2 < n {
		k *= 2
	}
	if m < k {
		return append(InclusionProof(m, leaves[:k]), MTH(leaves[k:]))
	}
	return append(InclusionProof(m-k, leaves[k:]), MTH(leaves[:k]))
}

// ConsistencyProof is RFC 6962 §2.1.2 PROOF(m, D[n]).
func ConsistencyProof(m int, leaves []Hash) []Hash {
	return subproof(m, leaves, true)
}

func subproof(m int, leaves []Hash, b bool) []Hash {
	n := len(leaves)
	if m == n {
		if b {
			return nil
		}
		return []Hash{MTH(leaves)}
	}
	k := 1
	for k*2 < n {
		k *= 2
	}
	if m <= k {
		return append(subproof(m, leaves[:k], b), MTH(leaves[k:]))
	}
	return append(subproof(m-k, leaves[k:], false), MTH(leaves[:k]))
}

// ---------------------------------------------------------------------------
// Tile geometry (c2sp.org/tlog-tiles, height 8)

const TileW = 256

type TileCoord struct {
	Kind string // "hash", "data", "names"
	L    int    // level for hash tiles
	N    int64
	W    int // 1..256
}

func fmtN(n int64) string {
	s := fmt.Sprintf("%03d", n%1000)
	for n >= 1000 {
		n /= 1000
		s = fmt.Sprintf("x%03d/%s", n%1000, s)
	}
	return s
}

func (t TileCoord) Path() string {
	var p string
	switch t.Kind {
	case "hash":
		p = fmt.Sprintf("tile/%d/%s", t.L, fmtN(t.N))
	case "data":
		p = "tile/data/" + fmtN(t.N)
	case "names":
		p = "tile/names/" + fmtN(t.N)
	}
	if t.W != TileW {
		p += fmt.Sprintf(".p/%d", t.W)
	}
	return p
}

// ParseTilePathRef parses the canonical path grammar; ok=false otherwise.
func ParseTilePathRef(p string) (TileCoord, bool) {
	rest, ok := strings.CutPrefix(p, "tile/")
	if !ok {
		return TileCoord{}, false
	}
	var t TileCoord
	i := strings.IndexByte(rest, '/')
	if i < 0 {
		return TileCoord{}, false
	}
	lvl := rest[:i]
	rest = rest[i+1:]
	switch lvl {
	case "data":
		t.Kind = "data"
	case "names":
		t.Kind = "names"
	default:
		t.Kind = "hash"
		if len(lvl) == 0 || len(lvl) > 2 || (len(lvl) > 1 && lvl[0] == '0') {
			return TileCoord{}, false
		}
		for _, c := range lvl {
			if c < '0' || c > '9' {
				return TileCoord{}, false
			}
			t.L = t.L*10 + int(c-'0')
		}
	}
	t.W = TileW
	if j := strings.Index(rest, ".p/"); j >= 0 {
		w := rest[j+3:]
		rest = rest[:j]
		if len(w) == 0 || len(w) > 3 || w[0] == '0' {
			return TileCoord{}, false
		}
		t.W = 0
		for _, c := range w {
			if c < '0' || c > '9' {
				return TileCoord{}, false
			}
			t.W = t.W*10 + int(c-'0')
		}
		if t.W < 1 || t.W > 255 {
			return TileCoord{}, false
		}
	}
	segs := strings.Split(rest, "/")
	for k, s := range segs {
		last := k == len(segs)-1
		if !last {
			if len(s) != 4 || s[0] != 'x' {
				return TileCoord{}, false
			}
			s = s[1:]
		}
		if len(s) != 3 {
			return TileCoord{}, false
		}
		v := 0
		for _, c := range s {
			if c < '0' || c > '9' {
				return TileCoord{}, false
			}
			v = v*10 + int(c-'0')
		}
		if k == 0 && len(segs) > 1 && v == 0 {
			return TileCoord{}, false // non-canonical leading x000
		}
		t.N = t.N*1000 + int64(v)
	}
	return t, true
}

// ExpectedTiles lists every tile a tree of n leaves consists of: full tiles and
// the right-edge partial tile of every level, plus data and names tiles.
func ExpectedTiles(n int64, withNames bool) []TileCoord {
	var out []TileCoord
	for L := 0; ; L++ {
		cnt := n >> (8 * uint(L))
		if cnt == 0 {
			break
		}
		for N := int64(0); N < cnt/TileW; N++ {
			out = append(out, TileCoord{"hash", L, N, TileW})
		}
		if w := int(cnt % TileW); w > 0 {
			out = append(out, TileCoord{"hash", L, cnt / TileW, w})
		}
	}
	kinds := []string{"data"}
	if withNames {
		kinds = append(kinds, "names")
	}
	for _, kind := range kinds {
		for N := int64(0); N < n/TileW; N++ {
			out = append(out, TileCoord{kind, 0, N, TileW})
		}
		if w := int(n % TileW); w > 0 {
			out = append(out, TileCoord{kind, 0, n / TileW, w})
		}
	}
	return out
}

// HashTileBytes renders hash tile t for the tree over leaves.
func HashTileBytes(leaves []Hash, t TileCoord) []byte {
	span := int64(1) << (8 * uint(t.L))
	out := make([]byte, 0, 32*t.W)
	for j := 0; j < t.W; j++ {
		lo := (t.N*TileW + int64(j)) * span
		h := MTH(leaves[lo : lo+span])
		out = append(out, h[:]...)
	}
	return out
}

// ---------------------------------------------------------------------------
// Static CT leaf encodings

type RefEntry struct {
	Timestamp    int64
	Index        int64
	IsPrecert    bool
	IssuerKeyHash [32]byte
	Cert         []byte // certificate or defanged TBS
	PreCert      []byte
	Fingerprints [][32]byte
}

func u24(n int) []byte { return []byte{byte(n >> 16), byte(n >> 8), byte(n)} }
func u16(n int) []byte { return []byte{byte(n >> 8), byte(n)} }

func (e *RefEntry) timestampedEntry() []byte {
	var b []byte
	b = binary.BigEndian.AppendUint64(b, uint64(e.Timestamp))
	if !e.IsPrecert {
		b = append(b, 0, 0)
	} else {
		b = append(b, 0, 1)
		b = append(b, e.IssuerKeyHash[:]...)
	}
	b = append(b, u24(len(e.Cert))...)
	b = append(b, e.Cert...)
	// CtExtensions: one leaf_index extension: type 0, length 5, uint40.
	ext := []byte{0, 0, 5, byte(e.Index >> 32), byte(e.Index >> 24), byte(e.Index >> 16), byte(e.Index >> 8), byte(e.Index)}
	b = append(b, u16(len(ext))...)
	b = append(b, ext...)
	return b
}

// MerkleTreeLeaf is the RFC 6962 §3.4 structure (version v1, leaf type timestamped_entry).
func (e *RefEntry) MerkleTreeLeaf() []byte {
	return append([]byte{0, 0}, e.timestampedEntry()...)
}

// TileLeaf is the c2sp.org/static-ct-api TileLeaf structure.
func (e *RefEntry) TileLeaf() []byte {
	b := e.timestampedEntry()
	if e.IsPrecert {
		b = append(b, u24(len(e.PreCert))...)
		b = append(b, e.PreCert...)
	}
	b = append(b, u16(32*len(e.Fingerprints))...)
	for _, f := range e.Fingerprints {
		b = append(b, f[:]...)
	}
	return b
}

var errShort = errors.New("ref: truncated")

type rd struct{ b []byte }

func (r *rd) take(n int) ([]byte, error) {
	if n < 0 || len(r.b) < n {
		return nil, errShort
	}
	x := r.b[:n]
	r.b = r.b[n:]
	return x, nil
}
func (r *rd) uint(n int) (int, error) {
	x, err := r.take(n)
	if err != nil {
		return 0, err
	}
	v := 0
	for _, c := range x {
		v = v<<8 | int(c)
	}
	return v, nil
}
func (r *rd) vec(lenBytes int) ([]byte, error) {
	n, err := r.uint(lenBytes)
	if err != nil {
		return nil, err
	}
	return r.take(n)
}

// DecodeTileLeaf strictly decodes one TileLeaf from b and returns the rest.
func DecodeTileLeaf(b []byte) (*RefEntry, []byte, error) {
	r := &rd{b}
	e := &RefEntry{}
	ts, err := r.take(8)
	if err != nil {
		return nil, nil, err
	}
	t := binary.BigEndian.Uint64(ts)
	if t > 1<<63-1 {
		return nil, nil, errors.New("ref: timestamp overflow")
	}
	e.Timestamp = int64(t)
	typ, err := r.uint(2)
	if err != nil {
		return nil, nil, err
	}
	switch typ {
	case 0:
	case 1:
		e.IsPrecert = true
		ikh, err := r.take(32)
		if err != nil {
			return nil, nil, err
		}
		copy(e.IssuerKeyHash[:], ikh)
	default:
		return nil, nil, errors.New("ref: unknown entry type")
	}
	if e.Cert, err = r.vec(3); err != nil {
		return nil, nil, err
	}
	ext, err := r.vec(2)
	if err != nil {
		return nil, nil, err
	}
	if len(ext) != 8 || ext[0] != 0 || ext[1] != 0 || ext[2] != 5 {
		return nil, nil, errors.New("ref: bad extensions")
	}
	for _, c := range ext[3:] {
		e.Index = e.Index<<8 | int64(c)
	}
	if e.IsPrecert {
		if e.PreCert, err = r.vec(3); err != nil {
			return nil, nil, err
		}
	}
	fp, err := r.vec(2)
	if err != nil {
		return nil, nil, err
	}
	if len(fp)%32 != 0 {
		return nil, nil, errors.New("ref: bad fingerprints")
	}
	for i := 0; i < len(fp); i += 32 {
		var f [32]byte
		copy(f[:], fp[i:])
		e.Fingerprints = append(e.Fingerprints, f)
	}
	return e, r.b, nil
}

func (e *RefEntry) Equal(o *RefEntry) bool {
	if e.Timestamp != o.Timestamp || e.Index != o.Index || e.IsPrecert != o.IsPrecert ||
		e.IssuerKeyHash != o.IssuerKeyHash || !bytes.Equal(e.Cert, o.Cert) || !bytes.Equal(e.PreCert, o.PreCert) ||
		len(e.Fingerprints) != len(o.Fingerprints) {
		return false
	}
	for i := range e.Fingerprints {
		if e.Fingerprints[i] != o.Fingerprints[i] {
			return false
		}
	}
	return true
}

// ---------------------------------------------------------------------------
// Checkpoint text (c2sp.org/tlog-checkpoint): origin, size, base64 root.

type RefCheckpoint struct {
	Origin string
	N      int64
	Root   Hash
	Ext    string
}

// ParseNoteText parses the text part of a signed note holding a checkpoint
// (everything before the blank line) without verifying signatures.
func ParseNoteText(note []byte) (RefCheckpoint, error) {
	i := bytes.Index(note, []byte("\n\n"))
	if i < 0 {
		return RefCheckpoint{}, errors.New("ref: no signature separator")
	}
	lines := strings.SplitN(string(note[:i+1]), "\n", 4)
	if len(lines) < 4 {
		return RefCheckpoint{}, errors.New("ref: short checkpoint")
	}
	var c RefCheckpoint
	c.Origin = lines[0]
	if _, err := fmt.Sscanf(lines[1], "%d", &c.N); err != nil || fmt.Sprint(c.N) != lines[1] {
		return RefCheckpoint{}, errors.New("ref: bad size")
	}
	rb, err := b64dec(lines[2])
	if err != nil || len(rb) != 32 {
		return RefCheckpoint{}, errors.New("ref: bad root")
	}
	copy(c.Root[:], rb)
	c.Ext = lines[3]
	return c, nil
}

func b64dec(s string) ([]byte, error) { return base64.StdEncoding.DecodeString(s) }

// NoteSig is one signature line of a signed note.
type NoteSig struct {
	Name string
	Raw  []byte // key hash (4 bytes) followed by the signature blob
}

// SplitNote splits a signed note into text and signature lines (no verification).
func SplitNote(note []byte) (text string, sigs []NoteSig, err error) {
	i := bytes.LastIndex(note, []byte("\n\n"))
	if i < 0 {
		return "", nil, errors.New("ref: no signature separator")
	}
	text = string(note[:i+1])
	rest := string(note[i+2:])
	if !strings.HasSuffix(rest, "\n") {
		return "", nil, errors.New("ref: signature block not newline terminated")
	}
	for _, line := range strings.Split(strings.TrimSuffix(rest, "\n"), "\n") {
		l, ok := strings.CutPrefix(line, "— ")
		if !ok {
			return "", nil, errors.New("ref: bad signature line")
		}
		j := strings.LastIndexByte(l, ' ')
		if j < 0 {
			return "", nil, errors.New("ref: bad signature line")
		}
		raw, err := b64dec(l[j+1:])
		if err != nil || len(raw) < 5 {
			return "", nil, errors.New("ref: bad signature base64")
		}
		sigs = append(sigs, NoteSig{Name: l[:j], Raw: raw})
	}
	return text, sigs, nil
}

// RFC6962KeyHash is the note key hash of a Static CT log key (type 0x05).
func RFC6962KeyHash(name string, pkix []byte) [4]byte {
	keyID := sha256.Sum256(pkix)
	h := sha256.New()
	h.Write([]byte(name))
	h.Write([]byte("\n"))
	h.Write([]byte{5})
	h.Write(keyID[:])
	var out [4]byte
	copy(out[:], h.Sum(nil))
	return out
}

// STHSignatureInput is the RFC 6962 §3.5 digitally-signed TreeHeadSignature input.
func STHSignatureInput(timestamp int64, size int64, root Hash) []byte {
	b := []byte{0 /* v1 */, 1 /* tree_hash */}
	b = binary.BigEndian.AppendUint64(b, uint64(timestamp))
	b = binary.BigEndian.AppendUint64(b, uint64(size))
	return append(b, root[:]...)
}

// VerifyLogCheckpoint verifies, independently of the code under test, that note
// is a checkpoint for origin name carrying a valid RFC 6962 tree head signature
// by the ECDSA key pub (PKIX encoding pkix). It returns the checkpoint and the
// tree head timestamp.
func VerifyLogCheckpoint(note []byte, name string, pub *ecdsa.PublicKey, pkix []byte) (RefCheckpoint, int64, error) {
	text, sigs, err := SplitNote(note)
	if err != nil {
		return RefCheckpoint{}, 0, err
	}
	cp, err := ParseNoteText([]byte(text + "\n"))
	if err != nil {
		return RefCheckpoint{}, 0, err
	}
	if cp.Origin != name {
		return RefCheckpoint{}, 0, fmt.Errorf("ref: origin %q != %q", cp.Origin, name)
	}
	kh := RFC6962KeyHash(name, pkix)
	for _, s := range sigs {
		if s.Name != name || !bytes.Equal(s.Raw[:4], kh[:]) {
			continue
		}
		blob := s.Raw[4:]
		if len(blob) < 12 {
			return RefCheckpoint{}, 0, errors.New("ref: short RFC6962NoteSignature")
		}
		ts := binary.BigEndian.Uint64(blob[:8])
		if ts > 1<<63-1 || blob[8] != 4 || blob[9] != 3 {
			return RefCheckpoint{}, 0, errors.New("ref: bad RFC6962NoteSignature header")
		}
		l := int(blob[10])<<8 | int(blob[11])
		if len(blob) != 12+l {
			return RefCheckpoint{}, 0, errors.New("ref: bad RFC6962NoteSignature length")
		}
		d := sha256.Sum256(STHSignatureInput(int64(ts), cp.N, cp.Root))
		if !ecdsa.VerifyASN1(pub, d[:], blob[12:]) {
			return RefCheckpoint{}, 0, errors.New("ref: tree head signature does not verify")
		}
		return cp, int64(ts), nil
	}
	return RefCheckpoint{}, 0, errors.New("ref: no signature by the log key")
}
