package verifmc

import (
	"crypto/sha256"
	"encoding/json"
	"fmt"
	"os"
	"reflect"
	"strconv"
	"strings"
	"time"
)

// Explorer2 is Explorer with finer work distribution: every shard runs the
// default execution and every depth-1 execution (one deviation from the
// default schedule), and the subtrees below them (depth-2 alternatives) are
// dealt out round-robin over the shards. With Explorer's depth-1 distribution
// the subtree of an early scheduling point dwarfs the others and one worker
// ends up with most of the search.
//
// Executions that every shard runs (depth 0 and 1) are counted, and their
// violations reported, only by the shard that owns them, so that merged counts
// are counts of distinct schedules.
type Explorer2 struct {
	Scenario       string
	Bound          int
	Run            func(prefix []int) *ExecResult
	Shard, NShards int
	Deadline       time.Time
	NoPrune        bool
	DetEvery       int
	MaxViolations  int
	Inflight       string

	Stats   Stats
	visited map[[16]byte]int
	ord1    int // ordinal of depth-1 nodes (ownership of shared executions)
	ord2    int // ordinal of depth-2 subtrees (work distribution)
	stop    bool
}

func (e *Explorer2) Explore() {
	if e.NShards == 0 {
		e.NShards = 1
	}
	if e.MaxViolations == 0 {
		e.MaxViolations = 3
	}
	e.visited = map[[16]byte]int{}
	e.Stats.Scenario = e.Scenario
	e.Stats.Bound = e.Bound
	e.Stats.Exhaustive = true
	e.Stats.outcomes = map[[16]byte]bool{}
	e.Stats.DevHistogram = map[string]int{}
	e.Stats.sampleDevs = -1
	e.explore(nil, 0, e.Shard == 0)
	e.Stats.States = len(e.visited)
	e.Stats.Outcomes = len(e.Stats.outcomes)
}

func (e *Explorer2) explore(prefix []int, depth int, owned bool) {
	if e.stop {
		return
	}
	if !e.Deadline.IsZero() && time.Now().After(e.Deadline) {
		e.Stats.Exhaustive = false
		e.stop = true
		return
	}
	if e.Inflight != "" {
		b, _ := json.Marshal(map[string]any{"scenario": e.Scenario, "picks": prefix})
		os.WriteFile(e.Inflight, b, 0644)
	}
	x := e.Run(prefix)
	used := 0
	for _, p := range x.Points {
		used += p.Cost[p.Picked]
	}
	if owned {
		e.Stats.Executions++
		e.Stats.Transitions += x.Steps
		if len(x.Points) > e.Stats.MaxDepth {
			e.Stats.MaxDepth = len(x.Points)
		}
		if x.Horizon {
			e.Stats.HorizonHits++
		}
		e.Stats.DevHistogram[strconv.Itoa(used)]++
		ok := sha256.Sum256([]byte(x.Outcome))
		var k16 [16]byte
		copy(k16[:], ok[:])
		e.Stats.outcomes[k16] = true
		if used > e.Stats.sampleDevs && used <= 2 && len(x.Trace) > 0 {
			e.Stats.sampleDevs = used
			e.Stats.SampleTrace = x.Trace
			if len(e.Stats.SampleTrace) > 80 {
				e.Stats.SampleTrace = e.Stats.SampleTrace[:80]
			}
		}
		if e.DetEvery > 0 && (e.Stats.Executions%e.DetEvery == 1 || len(x.Violations) > 0) {
			reruns := 1
			if len(x.Violations) > 0 {
				reruns = 4
			}
			picks := picksOf(x)
			for r := 0; r < reruns; r++ {
				y := e.Run(picks)
				e.Stats.DetReruns++
				if !reflect.DeepEqual(x.Trace, y.Trace) || x.Outcome != y.Outcome || !sameViolations(x.Violations, y.Violations) {
					panic(EngineError{fmt.Sprintf("nondeterministic replay in scenario %s picks %v:\n--- first\n%s\n--- second\n%s\noutcomes %q vs %q", e.Scenario, picks, strings.Join(x.Trace, "\n"), strings.Join(y.Trace, "\n"), x.Outcome, y.Outcome)})
				}
			}
		}
		for _, v := range x.Violations {
			e.Stats.ViolationList = append(e.Stats.ViolationList, Found{Violation: v, Scenario: e.Scenario, Picks: picksOf(x), Trace: x.Trace})
		}
		if len(e.Stats.ViolationList) >= e.MaxViolations {
			e.stop = true
			e.Stats.Exhaustive = false
			return
		}
	}

	cum := make([]int, len(x.Points)+1)
	for i, p := range x.Points {
		cum[i+1] = cum[i] + p.Cost[p.Picked]
	}
	limit := len(x.Points)
	// Depth-1 nodes are not cut by the visited set: it differs between shards
	// (each fills it from its own subtrees), and all shards must enumerate the
	// same depth-2 alternatives for the round-robin distribution to be a
	// partition. (At depth 0 the set is still empty.)
	if !e.NoPrune && depth != 1 {
		for i := len(prefix); i < len(x.Points); i++ {
			p := x.Points[i]
			if !p.HasKey {
				continue
			}
			rem := e.Bound - cum[i]
			if seen, ok := e.visited[p.Key]; ok && seen >= rem {
				limit = i
				if owned {
					e.Stats.Pruned++
				}
				break
			}
		}
	}
	// deterministic order of the alternatives (all shards walk depth 0 and 1 in
	// the same order, so the ordinals agree)
	for i := limit - 1; i >= len(prefix); i-- {
		p := x.Points[i]
		rem := e.Bound - cum[i]
		if p.HasKey {
			if seen, ok := e.visited[p.Key]; !ok || seen < rem {
				e.visited[p.Key] = rem
			}
		}
		for alt := 0; alt < len(p.Opts); alt++ {
			if alt == p.Picked {
				continue
			}
			if cum[i]+p.Cost[alt] > e.Bound {
				continue
			}
			childOwned := true
			switch depth {
			case 0:
				ord := e.ord1
				e.ord1++
				childOwned = ord%e.NShards == e.Shard
			case 1:
				ord := e.ord2
				e.ord2++
				if ord%e.NShards != e.Shard {
					continue
				}
			}
			np := make([]int, i+1)
			for j := 0; j < i; j++ {
				np[j] = x.Points[j].Picked
			}
			np[i] = alt
			e.explore(np, depth+1, childOwned)
			if e.stop {
				return
			}
		}
	}
}
