package verifmc

import (
	"crypto/sha256"
	"encoding/json"
	"fmt"
	"os"
	"path/filepath"
	"reflect"
	"regexp"
	"sort"
	"strconv"
	"strings"
	"time"
)

// Violation is a property violation observed in one execution.
type Violation struct {
	Property string `json:"property"`
	Msg      string `json:"msg"`
}

// ExecResult is what one execution (one run of a scenario under one schedule)
// reports back to the explorer.
type ExecResult struct {
	Points     []Choice
	Trace      []string
	Violations []Violation
	// Outcome is a canonical description of the terminal state; the number of
	// distinct outcomes is reported to expose vacuous exploration.
	Outcome string
	Steps   int
	Horizon bool
	// Mismatch: an observed (code-made) choice differed from the replayed one;
	// the execution is discarded and re-run.
	Mismatch bool
}

// Stats is the measured coverage of an exploration.
type Stats struct {
	Scenario string `json:"scenario"`
	Bound    int    `json:"bound"`
	// BoundCompleted is the largest deviation bound whose exploration finished.
	BoundCompleted        int  `json:"bound_completed"`
	Executions            int  `json:"executions"`
	States                int  `json:"states"`
	Transitions           int  `json:"transitions"`
	Pruned                int  `json:"pruned_nodes"`
	MaxDepth              int  `json:"max_depth"`
	Outcomes              int  `json:"distinct_outcomes"`
	DetReruns             int  `json:"determinism_reruns"`
	NondetViolationReruns int  `json:"nondeterministic_violation_reruns,omitempty"`
	Exhaustive            bool `json:"exhaustive"`
	HorizonHits           int  `json:"horizon_hits"`
	// ObservedRetries counts executions discarded because a code-made choice
	// differed from the replayed one; UnobservedAlternatives counts alternatives
	// of such choices that never showed up within the retry bound.
	ObservedRetries        int            `json:"observed_choice_retries,omitempty"`
	UnobservedAlternatives int            `json:"unobserved_alternatives,omitempty"`
	DevHistogram           map[string]int `json:"executions_by_deviation_count"`
	outcomes               map[[16]byte]bool
	SampleTrace            []string `json:"sample_trace,omitempty"`
	sampleDevs             int
	ViolationList          []Found `json:"violations,omitempty"`
	KnownList              []Found `json:"known,omitempty"`
}

// Found is a violation with the schedule that produced it.
type Found struct {
	Violation
	Scenario string          `json:"scenario"`
	Picks    []int           `json:"picks,omitempty"`
	Trace    []string        `json:"trace,omitempty"`
	Input    json.RawMessage `json:"input,omitempty"`
}

// Explorer is a stateless depth-first explorer with replay, a deviation budget
// and state-key pruning.
type Explorer struct {
	Scenario string
	Bound    int
	// Run executes the scenario, replaying prefix and then taking choice 0.
	Run func(prefix []int) *ExecResult
	// Shard/NShards: only top-level alternatives whose ordinal ≡ Shard are
	// explored (the default execution is run by every shard).
	Shard, NShards int
	Deadline       time.Time
	NoPrune        bool
	// DetEvery re-runs every k-th schedule and compares traces (0 = never).
	DetEvery int
	// MaxViolations stops the exploration after that many violations (default 3).
	MaxViolations int

	Stats   Stats
	visited map[[16]byte]int
	topOrd  int
	stop    bool
	// Inflight, if set, is a file the schedule about to run is written to.
	Inflight string
	// Terminal collects (outcome, violated properties) pairs for the pruning self-check.
	Terminal map[string]bool
	// Known matches violations listed as known findings: each is reported once
	// (the driver prints KNOWN-FINDING) and does not count towards MaxViolations.
	Known      func(scenario, msg string) bool
	knownShown map[string]bool
	// ClaimDir enables dynamic work distribution between the shards of one run
	// (a directory shared by them), see explore.
	ClaimDir  string
	countNext bool
}

// claim atomically claims the subtree rooted at the execution with picks np for
// this shard (per scenario and bound layer).
func (e *Explorer) claim(np []int) bool {
	h := sha256.New()
	fmt.Fprintf(h, "%s|%d|%v", e.Scenario, e.Bound, np)
	name := filepath.Join(e.ClaimDir, fmt.Sprintf("claim-%x", h.Sum(nil)[:12]))
	f, err := os.OpenFile(name, os.O_CREATE|os.O_EXCL|os.O_WRONLY, 0644)
	if err != nil {
		return false
	}
	f.Close()
	return true
}

func (e *Explorer) Explore() {
	if e.NShards == 0 {
		e.NShards = 1
	}
	if e.MaxViolations == 0 {
		e.MaxViolations = 3
	}
	e.visited = map[[16]byte]int{}
	e.Stats.Scenario = e.Scenario
	e.Stats.Bound = e.Bound
	e.Stats.Exhaustive = true
	e.Stats.outcomes = map[[16]byte]bool{}
	e.Stats.DevHistogram = map[string]int{}
	e.Stats.sampleDevs = -1
	if e.Terminal == nil {
		e.Terminal = map[string]bool{}
	}
	// Iterate the deviation bound 0, 1, …, Bound: every layer is completed before
	// the next one starts, so under a time cap the fully covered bound is known
	// (BoundCompleted) and the first counterexample has the fewest deviations.
	full := e.Bound
	states := map[[16]byte]bool{}
	e.Stats.BoundCompleted = -1
	for b := 0; b <= full && !e.stop; b++ {
		e.Bound = b
		e.visited = map[[16]byte]int{}
		e.topOrd = 0
		e.explore(nil, 0)
		for k := range e.visited {
			states[k] = true
		}
		if !e.stop {
			e.Stats.BoundCompleted = b
		}
	}
	e.Bound = full
	e.Stats.States = len(states)
	e.Stats.Outcomes = len(e.Stats.outcomes)
}

func (e *Explorer) runOnce(prefix []int) *ExecResult {
	if e.Inflight != "" {
		b, _ := json.Marshal(map[string]any{"scenario": e.Scenario, "picks": prefix})
		os.WriteFile(e.Inflight, b, 0644)
	}
	return e.runRetry(prefix)
}

// runRetry re-runs an execution whose observed choices did not match the
// replayed ones (bounded); nil means the recorded alternative never showed up.
func (e *Explorer) runRetry(prefix []int) *ExecResult {
	for try := 0; try < 300; try++ {
		x := e.Run(prefix)
		if !x.Mismatch {
			return x
		}
		e.Stats.ObservedRetries++
	}
	return nil
}

func (e *Explorer) explore(prefix []int, depth int) {
	if e.stop {
		return
	}
	if !e.Deadline.IsZero() && time.Now().After(e.Deadline) {
		e.Stats.Exhaustive = false
		e.stop = true
		return
	}
	x := e.runOnce(prefix)
	if x == nil {
		// an alternative of an observed choice could not be produced
		e.Stats.UnobservedAlternatives++
		e.Stats.Exhaustive = false
		return
	}
	counted := true
	if e.ClaimDir != "" && e.NShards > 1 {
		if depth == 0 {
			counted = e.Shard == 0
		} else if depth == 1 {
			counted = e.countNext
		}
	}
	if counted {
		e.Stats.Executions++
		e.Stats.Transitions += x.Steps
	}
	if len(x.Points) > e.Stats.MaxDepth {
		e.Stats.MaxDepth = len(x.Points)
	}
	if x.Horizon {
		e.Stats.HorizonHits++
	}
	used := 0
	for _, p := range x.Points {
		used += p.Cost[p.Picked]
	}
	if counted {
		e.Stats.DevHistogram[strconv.Itoa(used)]++
	}
	ok := sha256.Sum256([]byte(x.Outcome))
	var k16 [16]byte
	copy(k16[:], ok[:])
	e.Stats.outcomes[k16] = true
	if used > e.Stats.sampleDevs && used <= 2 && len(x.Trace) > 0 {
		e.Stats.sampleDevs = used
		e.Stats.SampleTrace = x.Trace
		if len(e.Stats.SampleTrace) > 80 {
			e.Stats.SampleTrace = e.Stats.SampleTrace[:80]
		}
	}
	vp := []string{}
	for _, v := range x.Violations {
		vp = append(vp, v.Property)
	}
	sort.Strings(vp)
	e.Terminal[x.Outcome+"|"+strings.Join(vp, ",")] = true

	unknown := 0
	for _, v := range x.Violations {
		if e.Known == nil || !e.Known(e.Scenario, v.Msg) {
			unknown++
		}
	}
	if e.DetEvery > 0 && (e.Stats.Executions%e.DetEvery == 1 || unknown > 0) {
		reruns := 1
		if unknown > 0 {
			reruns = 4
		}
		picks := picksOf(x)
		for r := 0; r < reruns; r++ {
			y := e.runRetry(picks)
			if y == nil {
				continue
			}
			e.Stats.DetReruns++
			if !reflect.DeepEqual(x.Trace, y.Trace) || x.Outcome != y.Outcome || !sameViolations(x.Violations, y.Violations) {
				if unknown > 0 && samePropertyViolated(x.Violations, y.Violations) {
					// The code under test itself behaves nondeterministically on this
					// schedule (e.g. map iteration order), but every replay violates
					// the same property: the violation stands.
					e.Stats.NondetViolationReruns++
					continue
				}
				panic(EngineError{fmt.Sprintf("nondeterministic replay in scenario %s picks %v:\n--- first\n%s\n--- second\n%s\noutcomes %q vs %q", e.Scenario, picks, strings.Join(x.Trace, "\n"), strings.Join(y.Trace, "\n"), x.Outcome, y.Outcome)})
			}
		}
	}
	for _, v := range x.Violations {
		if !counted {
			break // the owning shard reports it
		}
		if e.Known != nil && e.Known(e.Scenario, v.Msg) {
			if e.knownShown == nil {
				e.knownShown = map[string]bool{}
			}
			if !e.knownShown[v.Msg] {
				e.knownShown[v.Msg] = true
				e.Stats.KnownList = append(e.Stats.KnownList, Found{Violation: v, Scenario: e.Scenario, Picks: picksOf(x), Trace: x.Trace})
			}
			continue
		}
		e.Stats.ViolationList = append(e.Stats.ViolationList, Found{Violation: v, Scenario: e.Scenario, Picks: picksOf(x), Trace: x.Trace})
	}
	if len(e.Stats.ViolationList) >= e.MaxViolations {
		e.stop = true
		e.Stats.Exhaustive = false
		return
	}

	// Find the expandable range [len(prefix), limit): stop at the first point
	// whose state was already expanded with at least the same remaining budget.
	cum := make([]int, len(x.Points)+1)
	for i, p := range x.Points {
		cum[i+1] = cum[i] + p.Cost[p.Picked]
	}
	limit := len(x.Points)
	if !e.NoPrune {
		for i := len(prefix); i < len(x.Points); i++ {
			p := x.Points[i]
			if !p.HasKey {
				continue
			}
			rem := e.Bound - cum[i]
			if seen, ok := e.visited[p.Key]; ok && seen >= rem {
				limit = i
				e.Stats.Pruned++
				break
			}
		}
	}
	for i := limit - 1; i >= len(prefix); i-- {
		p := x.Points[i]
		rem := e.Bound - cum[i]
		if p.HasKey {
			if seen, ok := e.visited[p.Key]; !ok || seen < rem {
				e.visited[p.Key] = rem
			}
		}
		for alt := 0; alt < len(p.Opts); alt++ {
			if alt == p.Picked {
				continue
			}
			if cum[i]+p.Cost[alt] > e.Bound {
				continue
			}
			np := make([]int, i+1)
			for j := 0; j < i; j++ {
				np[j] = x.Points[j].Picked
			}
			np[i] = alt
			own := true
			if e.ClaimDir != "" && e.NShards > 1 {
				// Dynamic work distribution: every shard runs the depth-1 executions
				// (counted once, by the shard that owns them statically); the subtrees
				// below them (depth-2 nodes) are claimed through files created with
				// O_EXCL, so that shards that finish early take over remaining work.
				switch depth {
				case 0:
					ord := e.topOrd
					e.topOrd++
					own = ord%e.NShards == e.Shard
				case 1:
					if !e.claim(np) {
						continue
					}
				}
			} else if depth == 0 {
				ord := e.topOrd
				e.topOrd++
				if ord%e.NShards != e.Shard {
					continue
				}
			}
			e.countNext = own
			e.explore(np, depth+1)
			if e.stop {
				return
			}
		}
	}
}

func picksOf(x *ExecResult) []int {
	out := make([]int, len(x.Points))
	for i, p := range x.Points {
		out[i] = p.Picked
	}
	// Trim trailing defaults: a replay takes 0 past the prefix anyway.
	n := len(out)
	for n > 0 && out[n-1] == 0 && !x.Points[n-1].Observed {
		n--
	}
	return out[:n]
}

// samePropertyViolated reports whether every property violated in a is also
// violated in b (and a is not empty).
func samePropertyViolated(a, b []Violation) bool {
	if len(a) == 0 {
		return false
	}
	for _, v := range a {
		found := false
		for _, w := range b {
			if w.Property == v.Property {
				found = true
			}
		}
		if !found {
			return false
		}
	}
	return true
}

func sameViolations(a, b []Violation) bool {
	if len(a) != len(b) {
		return false
	}
	for i := range a {
		if a[i].Property != b[i].Property {
			return false
		}
	}
	return true
}

// ---------------------------------------------------------------------------
// Shard result files

// ShardResult is what one worker process writes; the check driver merges them.
type ShardResult struct {
	Property   string         `json:"property"`
	Shard      int            `json:"shard"`
	NShards    int            `json:"nshards"`
	Tier       string         `json:"tier"`
	Stats      []Stats        `json:"stats"`
	Extra      map[string]any `json:"extra,omitempty"`
	Samples    []any          `json:"samples,omitempty"`
	Violations []Found        `json:"violations,omitempty"`
	WallS      float64        `json:"wall_s"`
	Exhaustive bool           `json:"exhaustive"`
	EngineErr  string         `json:"engine_error,omitempty"`
}

// Env helpers shared by all harnesses.
func EnvInt(name string, def int) int {
	if v := os.Getenv(name); v != "" {
		if n, err := strconv.Atoi(v); err == nil {
			return n
		}
	}
	return def
}

func Tier() string {
	if t := os.Getenv("VERIF_TIER"); t != "" {
		return t
	}
	return "quick"
}

// WriteShardResult writes r to $VERIF_OUT/<property>.<shard>.json.
func WriteShardResult(r *ShardResult) error {
	dir := os.Getenv("VERIF_OUT")
	if dir == "" {
		dir = os.TempDir()
	}
	b, err := json.MarshalIndent(r, "", " ")
	if err != nil {
		return err
	}
	return os.WriteFile(filepath.Join(dir, fmt.Sprintf("%s.%d.json", r.Property, r.Shard)), b, 0644)
}

// ReplayFile is the on-disk form of a violating schedule.
type ReplayFile struct {
	Property string          `json:"property"`
	Scenario string          `json:"scenario"`
	Picks    []int           `json:"picks"`
	Input    json.RawMessage `json:"input,omitempty"`
	Msg      string          `json:"msg"`
	Trace    []string        `json:"trace,omitempty"`
}

func LoadReplay(path string) (*ReplayFile, error) {
	b, err := os.ReadFile(path)
	if err != nil {
		return nil, err
	}
	var r ReplayFile
	if err := json.Unmarshal(b, &r); err != nil {
		return nil, err
	}
	return &r, nil
}

// KnownFindings loads $VERIF_DIR/known_findings.json and returns a matcher for
// the findings of status "known" of one property (nil if there are none). The
// match regex is applied to "scenario\nmsg".
func KnownFindings(property string) func(scenario, msg string) bool {
	b, err := os.ReadFile(filepath.Join(os.Getenv("VERIF_DIR"), "known_findings.json"))
	if err != nil {
		return nil
	}
	var f struct {
		Findings []struct {
			Property, Status, Match string
		} `json:"findings"`
	}
	if json.Unmarshal(b, &f) != nil {
		return nil
	}
	var res []*regexp.Regexp
	for _, k := range f.Findings {
		if k.Property == property && k.Status == "known" && k.Match != "" {
			if re, err := regexp.Compile(k.Match); err == nil {
				res = append(res, re)
			}
		}
	}
	if len(res) == 0 {
		return nil
	}
	return func(scenario, msg string) bool {
		for _, re := range res {
			if re.MatchString(scenario + "\n" + msg) {
				return true
			}
		}
		return false
	}
}
