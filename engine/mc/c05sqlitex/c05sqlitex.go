// Package c05sqlitex stands in for crawshaw.io/sqlite/sqlitex in
// internal/ctlog/sqlite.go for the C05 check: every statement execution first
// calls the package-level hook BeforeStatement (when set), so that the harness
// can let another client's whole operation run - on its own connection -
// between any two SQL statements of one lock-backend operation. Without a hook
// it is a plain pass-through.
//
// The hook is not called while the connection is inside a transaction
// (autocommit off): a connection parked there holds SQLite locks and another
// connection would block inside C code.
package c05sqlitex

import (
	"crawshaw.io/sqlite"
	real "crawshaw.io/sqlite/sqlitex"
)

// BeforeStatement, when non-nil, is called before each Exec/ExecTransient.
// It is set and cleared by the (single-threaded) explorer only.
var BeforeStatement func(conn *sqlite.Conn, query string)

func before(conn *sqlite.Conn, query string) {
	if h := BeforeStatement; h != nil && conn != nil && conn.GetAutocommit() {
		h(conn, query)
	}
}

func Exec(conn *sqlite.Conn, query string, resultFn func(stmt *sqlite.Stmt) error, args ...interface{}) error {
	before(conn, query)
	return real.Exec(conn, query, resultFn, args...)
}

func ExecTransient(conn *sqlite.Conn, query string, resultFn func(stmt *sqlite.Stmt) error, args ...interface{}) error {
	before(conn, query)
	return real.ExecTransient(conn, query, resultFn, args...)
}

func ExecScript(conn *sqlite.Conn, queries string) error { return real.ExecScript(conn, queries) }

func Save(conn *sqlite.Conn) (releaseFn func(*error)) { return real.Save(conn) }
