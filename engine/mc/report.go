package verifmc

import (
	"encoding/json"
	"fmt"
	"os"
	"sync"
	"time"
)

// Report is the result collector for harnesses that enumerate inputs,
// histories or adversary moves themselves (engines E2/E4): it counts what was
// evaluated, keeps samples and violations, shards work across worker processes
// and writes the ShardResult file the check driver merges.
type Report struct {
	mu       sync.Mutex
	r        ShardResult
	start    time.Time
	deadline time.Time
	classes  map[string]int
	extra    map[string]float64
	replay   *ReplayFile
	capped   bool
}

func NewReport(property string) *Report {
	rp := &Report{start: time.Now(), classes: map[string]int{}, extra: map[string]float64{}}
	rp.r = ShardResult{Property: property, Shard: EnvInt("VERIF_SHARD", 0), NShards: EnvInt("VERIF_NSHARDS", 1), Tier: Tier(), Exhaustive: true}
	rp.deadline = rp.start.Add(time.Duration(EnvInt("VERIF_BUDGET_S", 100)) * time.Second)
	if p := os.Getenv("VERIF_REPLAY"); p != "" {
		if rf, err := LoadReplayAny(p); err == nil {
			rp.replay = rf
		} else {
			panic(EngineError{"cannot load replay file: " + err.Error()})
		}
	}
	return rp
}

// Thorough reports whether the thorough tier was requested.
func (rp *Report) Thorough() bool { return rp.r.Tier == "thorough" }

// Mine reports whether work unit i belongs to this shard.
func (rp *Report) Mine(i int) bool { return i%rp.r.NShards == rp.r.Shard }

// Replay returns the replay request (scenario + raw JSON input), or nil.
func (rp *Report) Replay() *ReplayFile { return rp.replay }

// Expired reports whether the time budget is used up; the first time it is, the
// run is marked non-exhaustive.
func (rp *Report) Expired() bool {
	if time.Now().Before(rp.deadline) {
		return false
	}
	rp.mu.Lock()
	rp.r.Exhaustive = false
	rp.capped = true
	rp.mu.Unlock()
	return true
}

// Eval counts one evaluated case; class is a short label of its equivalence
// class (cases are "distinct and non-trivial" per class, counted once).
func (rp *Report) Eval(class string) {
	rp.mu.Lock()
	rp.classes[class]++
	rp.extra["evaluations"]++
	rp.mu.Unlock()
}

// Add accumulates a numeric coverage key (states, transitions, ...).
func (rp *Report) Add(key string, n float64) {
	rp.mu.Lock()
	rp.extra[key] += n
	rp.mu.Unlock()
}

// Sample records an explored case verbatim (at most 6 are kept per shard).
func (rp *Report) Sample(x any) {
	rp.mu.Lock()
	if len(rp.r.Samples) < 6 {
		rp.r.Samples = append(rp.r.Samples, x)
	}
	rp.mu.Unlock()
}

// Violation records a property violation with a replayable input.
func (rp *Report) Violation(property, scenario string, input any, format string, a ...any) {
	rp.mu.Lock()
	defer rp.mu.Unlock()
	if len(rp.r.Violations) >= 20 {
		return
	}
	b, _ := json.Marshal(input)
	rp.r.Violations = append(rp.r.Violations, Found{Violation: Violation{Property: property, Msg: fmt.Sprintf(format, a...)}, Scenario: scenario, Input: b})
}

func (rp *Report) NViolations() int {
	rp.mu.Lock()
	defer rp.mu.Unlock()
	return len(rp.r.Violations)
}

// NotExhaustive marks the run as capped for a stated reason.
func (rp *Report) NotExhaustive(why string) {
	rp.mu.Lock()
	rp.r.Exhaustive = false
	if rp.r.Extra == nil {
		rp.r.Extra = map[string]any{}
	}
	rp.r.Extra["cap_reason"] = why
	rp.mu.Unlock()
}

// Note stores a free-form coverage key.
func (rp *Report) Note(key string, v any) {
	rp.mu.Lock()
	if rp.r.Extra == nil {
		rp.r.Extra = map[string]any{}
	}
	rp.r.Extra[key] = v
	rp.mu.Unlock()
}

// Finish writes the shard result. Call it exactly once, also on replay.
func (rp *Report) Finish() error {
	rp.mu.Lock()
	defer rp.mu.Unlock()
	if rp.r.Extra == nil {
		rp.r.Extra = map[string]any{}
	}
	for k, v := range rp.extra {
		rp.r.Extra[k] = v
	}
	rp.r.Extra["distinct_nontrivial"] = float64(len(rp.classes))
	// The driver takes the union of class labels across shards when they are
	// listed (a sum of per-shard counts would count shared classes twice).
	if len(rp.classes) <= 100000 {
		cl := make([]string, 0, len(rp.classes))
		for c := range rp.classes {
			cl = append(cl, c)
		}
		rp.r.Extra["_classes"] = cl
	}
	if _, ok := rp.extra["states"]; !ok {
		rp.r.Extra["states"] = float64(len(rp.classes))
		rp.r.Extra["_states_default"] = true
	}
	if _, ok := rp.extra["transitions"]; !ok {
		rp.r.Extra["transitions"] = rp.extra["evaluations"]
	}
	rp.r.WallS = time.Since(rp.start).Seconds()
	return WriteShardResult(&rp.r)
}

// EngineFail records an engine error (never a verdict) and writes the result.
func (rp *Report) EngineFail(msg string) {
	rp.mu.Lock()
	rp.r.EngineErr = msg
	rp.r.Exhaustive = false
	rp.mu.Unlock()
	rp.Finish()
}

// LoadReplayAny loads a replay file keeping its input as raw JSON.
func LoadReplayAny(path string) (*ReplayFile, error) {
	b, err := os.ReadFile(path)
	if err != nil {
		return nil, err
	}
	var r ReplayFile
	if err := json.Unmarshal(b, &r); err != nil {
		return nil, err
	}
	return &r, nil
}
